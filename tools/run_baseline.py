#!/usr/bin/env python3
"""Run the pinned unit-test baseline against a repo tree and compare with BASELINE.json.

Usage: run_baseline.py [REPO_DIR] [-n JOBS] [--examples]

Not part of any check (the checks are static); used before `fix:` commits and to confirm that a
seeded change still passes the existing tests.  Exit 0 iff every stable-pass test passed.
"""
import json
import os
import subprocess
import sys
import tempfile
import xml.etree.ElementTree as ET


def main():
    args = sys.argv[1:]
    repo = "/repo"
    jobs = "12"
    examples = False
    i = 0
    while i < len(args):
        if args[i] == "-n":
            jobs = args[i + 1]
            i += 2
        elif args[i] == "--examples":
            examples = True
            i += 1
        else:
            repo = args[i]
            i += 1
    base = json.load(open("/root/.vp/BASELINE.json"))
    stable = set(base["stable_pass"])
    with tempfile.TemporaryDirectory() as tmp:
        junit = os.path.join(tmp, "j.xml")
        env = dict(os.environ)
        env["PYTHONPATH"] = repo
        env.setdefault("PYTHONDONTWRITEBYTECODE", "1")
        cmd = ["/venv/bin/python", "-m", "pytest", "-q", "-p", "no:cacheprovider", "--timeout=900",
               "--continue-on-collection-errors", f"--junitxml={junit}", "-n", jobs]
        if examples:
            env["PATH"] = "/venv/bin:" + env["PATH"]
        r = subprocess.run(cmd, cwd=repo, env=env, capture_output=True, text=True)
        tail = r.stdout.strip().splitlines()[-1:] if r.stdout else []
        passed = set()
        failed = set()
        for tc in ET.parse(junit).getroot().iter("testcase"):
            name = f"{tc.get('classname')}::{tc.get('name')}"
            bad = any(ch.tag in ("failure", "error", "skipped") for ch in tc)
            (failed if bad else passed).add(name)
    missing = sorted(stable - passed)
    if missing and len(missing) <= 10:
        # timing-sensitive tests fail under parallel load: retry them serially once
        ids = []
        for m in missing:
            mod, _, name = m.partition("::")
            ids.append(mod.replace(".", "/") + ".py::" + name)
        env = dict(os.environ, PYTHONPATH=repo, PYTHONDONTWRITEBYTECODE="1")
        r2 = subprocess.run(["/venv/bin/python", "-m", "pytest", "-q", "-p", "no:cacheprovider", "--timeout=900", *ids],
                            cwd=repo, env=env, capture_output=True, text=True)
        print("retry of", len(missing), "test(s) serially:", (r2.stdout.strip().splitlines() or ["?"])[-1])
        if r2.returncode == 0:
            missing = []
    print("pytest:", *tail)
    print(f"stable={len(stable)} passed_of_stable={len(stable & passed)} missing={len(missing)}")
    for m in missing[:40]:
        print("  MISSING", m)
    if examples:
        ex_failed = sorted(f for f in failed if "test_example[" in f)
        print(f"examples failed: {len(ex_failed)}")
        for f in ex_failed:
            print("  EXFAIL", f)
    sys.exit(0 if not missing else 1)


if __name__ == "__main__":
    main()
