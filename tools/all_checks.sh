#!/bin/bash
# Run the quick tier of every check against /repo (or $1) and print what is not OK.  Usage: all_checks.sh [repo] [--evidence]
cd "$(dirname "$0")/.."
repo=${1:-/repo}; ev="--no-evidence"; [ "$2" == "--evidence" ] && ev=""
bad=0
for i in $(seq -w 1 20); do
  out=$(/venv/bin/python check.py C$i --repo $repo $ev 2>&1 | grep -v "^WARNING conda"); rc=$?
  last=$(echo "$out" | tail -1)
  case "$last" in *" OK:"*) ;; *) bad=1; echo "$out" | grep "VIOLATION\|ANALYSIS-ERROR\|: R-C" | head -5; echo "$last";; esac
done
[ $bad == 0 ] && echo "all 20 checks OK on $repo"
exit $bad
