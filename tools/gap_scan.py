#!/usr/bin/env python3
"""Gap scan: generic single-edit mutants of the core modules, run through every check.

Not a check and not evidence: it lists edits that NO rule notices, as a reading list for strengthening rules.
Operators:  del-call  — delete one call statement (not logging/reporting) in a function of a core module
            del-conj  — delete one `AND ...` / `OR ...` line of a multi-line SQL string
Usage: gap_scan.py <out.json> [--ops del-call,del-conj] [--modules a.py,b.py] [--limit N]
Every mutant tree lives under $TMPDIR and is removed after its run.
"""
import ast
import concurrent.futures
import json
import os
import pathlib
import re
import shutil
import subprocess
import sys
import tempfile

ROOT = pathlib.Path(__file__).resolve().parents[1]
CORE = pathlib.Path("/repo/stepup/core")
DEFAULT_MODULES = ["workflow.py", "step.py", "trellis.py", "scheduler.py", "executor.py", "builder.py", "finalize.py", "startup.py", "file.py", "watcher.py", "hash_queue.py", "pending.py"]
PROPS = [f"C{i:02d}" for i in range(1, 21)]
SKIP_CALL = re.compile(r"logger\.|reporter|print\(|\.debug\(|\.info\(|\.warning\(|progress|usage|sql_log|\.close\(")


def gen_del_call(mod):
    text = (CORE / mod).read_text()
    lines = text.splitlines(keepends=True)
    tree = ast.parse(text)
    out = []
    for fn in ast.walk(tree):
        if not isinstance(fn, (ast.FunctionDef, ast.AsyncFunctionDef)):
            continue
        for n in ast.walk(fn):
            if isinstance(n, ast.Expr) and isinstance(n.value, (ast.Call, ast.Await)):
                c = n.value.value if isinstance(n.value, ast.Await) else n.value
                if not isinstance(c, ast.Call):
                    continue
                src = ast.unparse(n)
                if SKIP_CALL.search(src):
                    continue
                indent = re.match(r"\s*", lines[n.lineno - 1]).group(0)
                new = lines[: n.lineno - 1] + [indent + "pass\n"] + lines[n.end_lineno:]
                out.append(dict(op="del-call", file=mod, func=fn.name, line=n.lineno, removed=src[:160], text="".join(new)))
    return out


def gen_del_conj(mod):
    text = (CORE / mod).read_text()
    lines = text.splitlines(keepends=True)
    out = []
    for k, l in enumerate(lines):
        if re.match(r"^\s*\"?\s*(AND|OR) ", l) and not l.strip().startswith("#"):
            # only inside SQL strings: crude test, a neighbouring line has SQL keywords
            ctxt = "".join(lines[max(0, k - 12): k + 3])
            if not re.search(r"\b(SELECT|UPDATE|DELETE|WHERE|JOIN)\b", ctxt):
                continue
            new = lines[:k] + lines[k + 1:]
            out.append(dict(op="del-conj", file=mod, func="", line=k + 1, removed=l.strip()[:160], text="".join(new)))
    return out


def run_mutant(m):
    tmp = pathlib.Path(tempfile.mkdtemp(prefix="verif_gap_"))
    try:
        core = tmp / "stepup" / "core"
        core.mkdir(parents=True)
        for p in CORE.glob("*.py"):
            if p.name == m["file"]:
                (core / p.name).write_text(m["text"])
            else:
                shutil.copyfile(p, core / p.name)
        try:
            ast.parse(m["text"])
        except SyntaxError:
            return dict(m, text=None, fired=["SYNTAX"])
        fired = []
        for prop in PROPS:
            r = subprocess.run(["/venv/bin/python", str(ROOT / "check.py"), prop, "--repo", str(tmp), "--no-evidence"], capture_output=True, text=True, cwd=ROOT)
            if r.returncode != 0:
                fired.append(f"{prop}:{r.returncode}")
        return dict(m, text=None, fired=fired)
    finally:
        shutil.rmtree(tmp, ignore_errors=True)


def main():
    out = sys.argv[1]
    ops = ["del-call", "del-conj"]
    mods = DEFAULT_MODULES
    limit = None
    a = sys.argv[2:]
    while a:
        if a[0] == "--ops":
            ops = a[1].split(",")
        elif a[0] == "--modules":
            mods = a[1].split(",")
        elif a[0] == "--limit":
            limit = int(a[1])
        a = a[2:]
    muts = []
    for mod in mods:
        if "del-call" in ops:
            muts += gen_del_call(mod)
        if "del-conj" in ops:
            muts += gen_del_conj(mod)
    if limit:
        muts = muts[:limit]
    print(f"{len(muts)} mutants", flush=True)
    res = []
    with concurrent.futures.ThreadPoolExecutor(max_workers=int(os.environ.get("GAP_JOBS", "10"))) as ex:
        for k, r in enumerate(ex.map(run_mutant, muts)):
            res.append(r)
            if k % 20 == 0:
                print(k, flush=True)
                json.dump(res, open(out, "w"), indent=0)
    json.dump(res, open(out, "w"), indent=0)
    surv = [r for r in res if not r["fired"]]
    print(f"{len(res)} mutants, {len(surv)} noticed by no check")


if __name__ == "__main__":
    main()
