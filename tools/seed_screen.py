#!/usr/bin/env python3
"""Quick screen: apply a patch to a scratch copy of /repo's package and run every check on it.

Usage: seed_screen.py <patch.diff> [Cxx ...]   (no confirmation of the seed itself; see seed_ingest.py)
"""
import concurrent.futures
import pathlib
import shutil
import subprocess
import sys
import tempfile

ROOT = pathlib.Path(__file__).resolve().parents[1]


def run_check(args):
    prop, repo = args
    r = subprocess.run(["/venv/bin/python", str(ROOT / "check.py"), prop, "--repo", repo, "--no-evidence"], capture_output=True, text=True, cwd=ROOT)
    lines = [l.strip() for l in r.stdout.splitlines() if (": R-C" in l and not l.startswith("[") and not l.startswith("KNOWN")) or "ANALYSIS-ERROR" in l]
    return prop, r.returncode, lines


def main():
    patch = pathlib.Path(sys.argv[1]).resolve()
    props = sys.argv[2:] or [f"C{i:02d}" for i in range(1, 21)]
    tmp = pathlib.Path(tempfile.mkdtemp(prefix="verif_screen_"))
    try:
        shutil.copytree("/repo/stepup", tmp / "stepup", ignore=shutil.ignore_patterns("__pycache__"))
        r = subprocess.run(["git", "apply", "--include=stepup/*", str(patch)], cwd=tmp, capture_output=True, text=True)
        if r.returncode != 0:
            print("APPLY FAILED", r.stderr[-300:])
            return 2
        with concurrent.futures.ProcessPoolExecutor(max_workers=8) as ex:
            res = list(ex.map(run_check, [(p, str(tmp)) for p in props]))
        fired = [(p, rc, lines) for p, rc, lines in res if rc != 0]
        print(f"{patch}: fired {[p for p, _, _ in fired]}")
        for p, rc, lines in fired:
            for l in lines[:4]:
                print("   ", p, rc, l[:260])
    finally:
        shutil.rmtree(tmp, ignore_errors=True)
    return 0


if __name__ == "__main__":
    sys.exit(main())
