#!/usr/bin/env python3
"""Refresh the generated blocks of DESIGN.md section 8 (rule list, seed table, fixed and known findings)."""
import importlib
import json
import pathlib
import re
import sys

ROOT = pathlib.Path(__file__).resolve().parents[1]
sys.path.insert(0, str(ROOT))


def block(text, name, body):
    a, b = f"<!-- BEGIN:{name} -->", f"<!-- END:{name} -->"
    i, j = text.index(a) + len(a), text.index(b)
    return text[:i] + "\n" + body.rstrip() + "\n" + text[j:]


def main():
    p = ROOT / "DESIGN.md"
    s = p.read_text()
    lines, nm, nv = [], 0, 0
    for k in range(1, 21):
        pid = f"C{k:02d}"
        m = importlib.import_module(f"verif.rules.{pid}")
        nm += len(m.MUTANTS)
        nv += len(m.VARIANTS)
        lines.append(f"* **{pid}** — " + "; ".join(f"{r.rid} {r.title}" for r in m.RULES) + f". Audit: {len(m.MUTANTS)} mutants, {len(m.VARIANTS)} variants.")
    s = block(s, "rules", "\n".join(lines))
    rows = ["| seed | file(s) | reported by (rule ids) |", "|---|---|---|"]
    n = 0
    for d in sorted((ROOT / "seeded").iterdir()):
        mf = d / "meta.json"
        if not mf.exists():
            continue
        n += 1
        meta = json.loads(mf.read_text())
        diff = (d / "patch.diff").read_text()
        files = sorted(set(re.findall(r"^\+\+\+ b/stepup/core/(\S+)", diff, re.M)))
        rules = sorted({r for v in meta["caught_by"].values() for rep in v["reports"] for r in re.findall(r"R-C\d\d-\w+", rep)})
        own = meta["property"] in meta["caught_by"]
        rows.append(f"| {meta['id']} | {', '.join(files)} | {' '.join(rules)}{'' if own else ' (not by its own check)'} |")
    s = block(s, "seeds", "\n".join(rows))
    kf = json.loads((ROOT / "known_findings.json").read_text())
    s = block(s, "fixed", "\n".join("* " + x for x in kf["fixed"]))
    seen = {}
    for f in kf["findings"]:
        seen.setdefault(f["id"], []).append(f)
    known = []
    for fid, fs in seen.items():
        sites = ", ".join(f"`{f['site']}`" for f in fs)
        known.append(f"* **{fid}** ({fs[0]['property']}, {fs[0]['rule']}, {sites}): {fs[0]['what']}")
    s = block(s, "known", "\n".join(known))
    p.write_text(s)
    print(f"rules: {nm} mutants, {nv} variants; seeds: {n}; fixed: {len(kf['fixed'])}; known ids: {len(seen)}")


if __name__ == "__main__":
    main()
