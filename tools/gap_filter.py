#!/usr/bin/env python3
"""Second stage of the gap scan: which unnoticed single-edit mutants also pass the unit tests?

Usage: gap_filter.py <scan.json> <out.json>
For every mutant of <scan.json> that no check noticed, the edit is applied to a scratch git worktree of
/repo (created under $TMPDIR, removed at the end) and the unit tests are run fail-fast (examples and the
documented flaky tests deselected).  Only mutants that pass are interesting: they are realistic edits that
the existing tests accept and no rule sees.  Not a check, not evidence.
"""
import json
import os
import pathlib
import re
import subprocess
import sys
import tempfile
import shutil

sys.path.insert(0, str(pathlib.Path(__file__).resolve().parent))
import gap_scan  # noqa: E402


def main():
    scan, out = sys.argv[1], sys.argv[2]
    res = json.load(open(scan))
    surv = [r for r in res if not r["fired"]]
    # regenerate the mutant texts (the scan does not store them)
    texts = {}
    for mod in sorted({r["file"] for r in surv}):
        for m in gap_scan.gen_del_call(mod) + gap_scan.gen_del_conj(mod):
            texts[(m["op"], m["file"], m["line"], m["removed"])] = m["text"]
    tmp = tempfile.mkdtemp(prefix="verif_gapwt_")
    wt = os.path.join(tmp, "wt")
    subprocess.run(f"git -C /repo worktree add --detach {wt} HEAD -q", shell=True, check=True)
    results = []
    try:
        for k, r in enumerate(surv):
            key = (r["op"], r["file"], r["line"], r["removed"])
            if key not in texts:
                continue
            target = pathlib.Path(wt) / "stepup" / "core" / r["file"]
            orig = target.read_text()
            target.write_text(texts[key])
            env = dict(os.environ, PYTHONPATH=wt, PYTHONDONTWRITEBYTECODE="1")
            try:
                p = subprocess.run(["/venv/bin/python", "-m", "pytest", "-q", "-x", "-p", "no:cacheprovider", "--timeout=300", "-n", os.environ.get("GAP_JOBS", "8"),
                                "--deselect", "tests/test_examples.py", "--ignore", "tests/test_interrupt.py",
                                "--deselect", "tests/test_usage.py::test_cgroup_memory_sampler_tracks_peak", "tests"],
                               cwd=wt, env=env, capture_output=True, text=True, timeout=1200)
            except subprocess.TimeoutExpired:
                # a mutant that makes the suite hang is noticed by the tests
                results.append(dict(r, tests_pass=False, tail="timeout", first_fail="timeout"))
                target.write_text(orig)
                continue
            tail = (p.stdout.strip().splitlines() or ["?"])[-1]
            first_fail = next((l for l in p.stdout.splitlines() if l.startswith("FAILED") or l.startswith("ERROR")), "")
            results.append(dict(r, tests_pass=(p.returncode == 0), tail=tail[:120], first_fail=first_fail[:160]))
            target.write_text(orig)
            if k % 10 == 0:
                print(k, len(surv), sum(1 for x in results if x["tests_pass"]), flush=True)
                json.dump(results, open(out, "w"), indent=0)
    finally:
        subprocess.run(f"git -C /repo worktree remove --force {wt}", shell=True)
        shutil.rmtree(tmp, ignore_errors=True)
    json.dump(results, open(out, "w"), indent=0)
    ok = [x for x in results if x["tests_pass"]]
    print(f"{len(results)} unnoticed mutants, {len(ok)} also pass the unit tests")
    for x in ok:
        print(" ", x["file"], x["func"], x["line"], "|", x["removed"][:120])


if __name__ == "__main__":
    main()
