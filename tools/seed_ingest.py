#!/usr/bin/env python3
"""Confirm a seeded breaking change and record it under /verif/seeded/<id>/.

Usage: seed_ingest.py <seed-id> <property> <dir-with-patch.diff-and-demo> [--needs TEXT]
       seed_ingest.py --recheck [seed-id ...]     (recompute caught_by of confirmed seeds with the current checks)

Steps (all in a fresh scratch worktree of /repo, removed afterwards):
  1. demo on the clean tree must pass (exit 0)
  2. `git apply patch.diff`
  3. the pinned unit baseline must still pass (tools/run_baseline.py)
  4. the demo must fail (non-zero exit)
  5. every claimed check of MANIFEST.json is run (quick tier) against the patched tree; the rules
     that fire are recorded
The static checks are also run; nothing of this is evidence for a property, it only records which
checks catch which change.
"""
import json
import os
import pathlib
import shutil
import subprocess
import sys
import tempfile

ROOT = pathlib.Path(__file__).resolve().parents[1]


def sh(cmd, cwd=None, env=None, timeout=1800):
    r = subprocess.run(cmd, shell=True, cwd=cwd, env=env, capture_output=True, text=True, timeout=timeout)
    return r.returncode, (r.stdout + r.stderr)


def run_demo(wt, demo_rel, src_dir):
    env = dict(os.environ, PYTHONPATH=str(wt), PYTHONDONTWRITEBYTECODE="1")
    env["PATH"] = "/venv/bin:" + env["PATH"]
    demo = pathlib.Path(wt) / "_seed" / "S" / demo_rel
    if demo.name.startswith("test_"):
        cmd = f"/venv/bin/python -m pytest -q -p no:cacheprovider -x {demo}"
    else:
        cmd = f"/venv/bin/python {demo}"
    return sh(cmd, cwd=wt, env=env, timeout=900)


def _one_check(a):
    pid, wt = a
    rc, out = sh(f"/venv/bin/python {ROOT}/check.py {pid} --repo {wt} --no-evidence", cwd=ROOT)
    lines = [l.strip() for l in out.splitlines() if ": R-C" in l and not l.startswith("[") and not l.startswith("KNOWN-FINDING")]
    return pid, rc, lines[:6] or [l for l in out.splitlines() if "ANALYSIS-ERROR" in l][:2]


def run_checks(wt):
    """Quick tier of every claimed check against the tree in ``wt``; returns {property: {exit, reports}} for those that fired."""
    import concurrent.futures

    manifest = json.loads((ROOT / "MANIFEST.json").read_text())
    pids = [chk["property_id"] for chk in manifest["checks"]]
    fired = {}
    with concurrent.futures.ThreadPoolExecutor(max_workers=8) as ex:
        for pid, rc, reports in ex.map(_one_check, [(p, wt) for p in pids]):
            if rc != 0:
                fired[pid] = dict(exit=rc, reports=reports)
    return fired


def needs_from_readme(d: pathlib.Path) -> str:
    """The paragraph of the seed's README that says what the change needs in order to manifest."""
    import re

    f = d / "README.md"
    if not f.exists():
        return ""
    text = f.read_text()
    paras = [re.sub(r"\s+", " ", p).strip() for p in re.split(r"\n\s*\n|\n(?=[-*] \*\*)|\n(?=\*\*)", text)]
    for p in paras:
        if re.match(r"^[-*]?\s*\**\s*(needed to manifest|what it needs|needs to manifest|needs|what is needed)", p, re.I):
            return re.sub(r"^[-*]?\s*", "", p)[:900]
    for p in paras:
        if re.search(r"manifest|needs", p, re.I):
            return p[:900]
    return ""


def recheck(seed_id):
    """Recompute `caught_by` of an already confirmed seed against the current checks (scratch worktree of /repo HEAD)."""
    dst = ROOT / "seeded" / seed_id
    meta = json.loads((dst / "meta.json").read_text())
    tmp = tempfile.mkdtemp(prefix=f"seed_{seed_id}_")
    wt = pathlib.Path(tmp) / "wt"
    try:
        rc, out = sh(f"git -C /repo worktree add --detach {wt} HEAD -q")
        assert rc == 0, out
        rc, out = sh(f"git -C {wt} apply {dst / 'patch.diff'}")
        if rc != 0:
            print(f"{seed_id}: patch no longer applies to /repo HEAD: {out[-200:]}")
            return 1
        fired = run_checks(wt)
    finally:
        sh(f"git -C /repo worktree remove --force {wt}")
        shutil.rmtree(tmp, ignore_errors=True)
    meta["caught_by"] = fired
    meta["detected"] = bool(fired)
    meta["needs"] = needs_from_readme(dst) or meta.get("needs", "")
    meta["repo_head_checked"] = sh("git -C /repo rev-parse --short HEAD")[1].strip()
    (dst / "meta.json").write_text(json.dumps(meta, indent=1) + "\n")
    print(seed_id, "caught by", sorted(fired))
    return 0


def main():
    args = sys.argv[1:]
    if args and args[0] == "--recheck":
        ids = args[1:] or sorted(p.name for p in (ROOT / "seeded").iterdir() if (p / "meta.json").exists())
        return max([recheck(i) for i in ids] or [0])
    needs = ""
    if "--needs" in args:
        i = args.index("--needs")
        needs = args[i + 1]
        del args[i:i + 2]
    seed_id, prop, src = args[0], args[1], pathlib.Path(args[2]).resolve()
    patch = src / "patch.diff"
    demos = [p for p in src.iterdir() if p.name in ("demo.py", "test_demo.py")]
    assert patch.exists() and demos, "patch.diff and demo.py/test_demo.py required"
    demo = demos[0]
    tmp = tempfile.mkdtemp(prefix=f"seed_{seed_id}_")
    wt = pathlib.Path(tmp) / "wt"
    log = {}
    try:
        rc, out = sh(f"git -C /repo worktree add --detach {wt} HEAD -q")
        assert rc == 0, out
        shutil.copytree(src, wt / "_seed" / "S")
        # demos written by the sub-agents refer to their own worktree path; retarget to this one
        for p in (wt / "_seed" / "S").rglob("*"):
            if p.is_file() and p.suffix in (".py", ".sh", ".md", ".txt"):
                t = p.read_text()
                import re

                t2 = re.sub(r"/tmp/wt\d?_C\d\d", str(wt), t)
                if t2 != t:
                    p.write_text(t2)
        rc_clean, out_clean = run_demo(wt, demo.name, src)
        log["demo_clean_rc"] = rc_clean
        rc, out = sh(f"git -C {wt} apply {patch}")
        log["apply_rc"] = rc
        if rc != 0:
            log["apply_out"] = out[-500:]
        rc_b, out_b = sh(f"/venv/bin/python {ROOT}/tools/run_baseline.py {wt} -n 8")
        log["baseline_rc"] = rc_b
        log["baseline_tail"] = out_b.strip().splitlines()[-3:]
        rc_pat, out_pat = run_demo(wt, demo.name, src)
        log["demo_patched_rc"] = rc_pat
        log["demo_patched_tail"] = out_pat.strip().splitlines()[-6:]
        log["checks_fired"] = run_checks(wt)
    finally:
        sh(f"git -C /repo worktree remove --force {wt}")
        shutil.rmtree(tmp, ignore_errors=True)
    confirmed = log.get("demo_clean_rc") == 0 and log.get("apply_rc") == 0 and log.get("baseline_rc") == 0 and log.get("demo_patched_rc", 0) != 0
    log["confirmed"] = confirmed
    print(json.dumps(log, indent=1))
    if confirmed:
        dst = ROOT / "seeded" / seed_id
        if dst.exists():
            shutil.rmtree(dst)
        shutil.copytree(src, dst)
        for p in dst.rglob("*"):
            if p.is_file() and p.suffix in (".py", ".sh", ".md", ".txt"):
                import re

                t = p.read_text()
                t2 = re.sub(r"/tmp/wt\d?_C\d\d", "$WT", t) if p.suffix == ".md" else t
                if t2 != t:
                    p.write_text(t2)
        caught = sorted(log["checks_fired"])
        meta = dict(
            id=seed_id, property=prop, needs=needs,
            what_ran=[
                "demo on clean scratch worktree: exit 0",
                "git apply patch.diff: ok",
                f"pinned unit baseline with patch (tools/run_baseline.py): all stable tests pass ({' '.join(log['baseline_tail'][-1:])})",
                f"demo with patch: exit {log['demo_patched_rc']}",
                "quick tier of every claimed check against the patched scratch tree",
            ],
            caught_by=log["checks_fired"],
            detected=bool(caught),
            note="the demo refers to the worktree it was written in; set WT and adapt the path when re-running (tools/seed_ingest.py retargets it automatically)",
        )
        (dst / "meta.json").write_text(json.dumps(meta, indent=1) + "\n")
        print("recorded in", dst, "caught by", caught)
    else:
        print("NOT CONFIRMED")
    return 0 if confirmed else 1


if __name__ == "__main__":
    sys.exit(main())
