#!/usr/bin/env python3
"""Rebuild reference/locals.json (local-variable names and statement skeletons of /repo HEAD) after a /repo commit."""
import json
import pathlib
import sys

ROOT = pathlib.Path(__file__).resolve().parents[1]
sys.path.insert(0, str(ROOT))
from verif.engine import canon  # noqa: E402

ref = canon.build_reference(sys.argv[1] if len(sys.argv) > 1 else "/repo")
canon.REFERENCE.write_text(json.dumps(ref, indent=0, sort_keys=True) + "\n")
print(f"{len(ref)} functions -> {canon.REFERENCE}")
