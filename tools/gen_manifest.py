#!/usr/bin/env python3
"""Generate /verif/MANIFEST.json from the claim table below (keeps it valid and consistent)."""
import json
import pathlib

ROOT = pathlib.Path(__file__).resolve().parents[1]

PY = "/venv/bin/python"

# property -> dict(text, note, technique, design_ref)
CLAIMS = {}

# property -> reason (for properties without a check)
NOT_APPLICABLE = {}


def claim(pid, text, note, technique):
    CLAIMS[pid] = dict(text=text, note=note, technique=technique, design_ref=f"DESIGN.md section 4, {pid}")


exec((ROOT / "tools" / "claims.py").read_text())


def main():
    props = [json.loads(line)["id"] for line in (ROOT / "properties.jsonl").read_text().splitlines() if line.strip()]
    checks = []
    for pid in props:
        if pid not in CLAIMS:
            continue
        c = dict(CLAIMS[pid])
        # keep the claim in step with the rules: the clauses added during the build phase are listed in the
        # EXPLANATION of the rule module ("Also: ..."), the known findings in known_findings.json
        import importlib
        import sys

        sys.path.insert(0, str(ROOT))
        expl = importlib.import_module(f"verif.rules.{pid}").EXPLANATION
        k = expl.find(" Also")
        if k >= 0:
            c["text"] = c["text"].rstrip() + expl[k:]
        c["design_ref"] = f"DESIGN.md section 4 ({pid}) and section 8"
        kf = json.loads((ROOT / "known_findings.json").read_text())
        ids = sorted({f["id"] for f in kf["findings"] if f["property"] == pid})
        if ids and not all(i in c["note"] for i in ids):
            c["note"] = c["note"].rstrip() + f" Known findings listed in known_findings.json for this property: {', '.join(ids)}."
        checks.append({
            "property_id": pid,
            "quick_cmd": f"{PY} check.py {pid} --tier quick",
            "thorough_cmd": f"{PY} check.py {pid} --tier thorough",
            "evidence_file": f"/verif/evidence/{pid}.json",
            "replay_cmd_template": f"{PY} check.py {pid} --replay {{path}}",
            "engine": "static-rules",
            "level_claimed": {"category": "other", "text": c["text"], "design_ref": c["design_ref"]},
            "level_note": c["note"],
            "technique": c["technique"],
        })
    na = [{"property_id": pid, "reason": NOT_APPLICABLE.get(pid, "no structural clause implemented; see DESIGN.md")} for pid in props if pid not in CLAIMS]
    manifest = {
        "version": 1,
        "setup_cmd": f"{PY} -c \"import ast, sqlite3, sys; assert sys.version_info >= (3, 12); assert sqlite3.sqlite_version_info >= (3, 35)\"",
        "hooks": {
            "guard": "STEPUP_CORE_VERIF",
            "enable": "none needed: the checks only parse /repo's sources; no hook or instrumentation exists in /repo",
            "baseline_off_cmd": "cd /repo && /venv/bin/python -m pytest -ra -q -p no:cacheprovider --timeout=900 --continue-on-collection-errors",
            "source_commits": [],
            "add_only": True,
        },
        "engines": [
            {"name": "static-rules", "path": "/verif/check.py", "serves_properties": sorted(CLAIMS),
             "kind_free_text": "repository-specific static analysis: AST source model with constant folder (E1), SQLite as SQL compiler front end for effects/catalogue/predicate truth tables (E2), call graph with transaction regions (E3), finite-domain abstract interpretation (E4), structured path enumeration (E5), rule runner with frozen instance tables and known findings (E6); thorough tier adds a mutation sensitivity audit of the checker on scratch copies"},
        ],
        "checks": checks,
        "not_applicable": na,
        "notes": "All checks are static: /repo is parsed, never imported or executed. Exit 0 = all rule instances hold (KNOWN-FINDING lines for entries of known_findings.json), 1 = VIOLATION line, 2 = ANALYSIS-ERROR (fail closed). Each check decides structural clauses that are necessary conditions of the property, not the behaviour itself; the undecided remainder of each property is stated in DESIGN.md section 4 and in level_note.",
    }
    (ROOT / "MANIFEST.json").write_text(json.dumps(manifest, indent=1) + "\n")
    print(f"claimed {len(checks)}, not applicable {len(na)}")


if __name__ == "__main__":
    main()
