#!/usr/bin/env python3
"""Robustness audit: run every check on behaviour-preserving rewrites of the whole package.

The rewrites live in verif/engine/benign.py (KINDS); each is applied to every module of stepup/core on a
scratch copy under $TMPDIR, removed afterwards.  A check that reports a VIOLATION on such a tree demands
more than its property states (a false alarm in waiting); an ANALYSIS-ERROR means an anchor was lost.
The thorough tier of every check runs the same rewrites for its own rules.
Usage: benign_audit.py [kind ...]
"""
import ast
import concurrent.futures
import os
import pathlib
import shutil
import subprocess
import sys
import tempfile

ROOT = pathlib.Path(__file__).resolve().parents[1]
PROPS = [f"C{i:02d}" for i in range(1, 21)]


sys.path.insert(0, str(ROOT))
from verif.engine.benign import KINDS, make_variant  # noqa: E402


def run_check(args):
    prop, repo = args
    r = subprocess.run(["/venv/bin/python", str(ROOT / "check.py"), prop, "--repo", repo, "--no-evidence"], capture_output=True, text=True, cwd=ROOT)
    lines = [l for l in r.stdout.splitlines() if ": R-C" in l and not l.startswith("[") and not l.startswith("KNOWN")]
    err = [l for l in r.stdout.splitlines() if "ANALYSIS-ERROR" in l]
    return prop, r.returncode, lines, err


def main():
    kinds = sys.argv[1:] or list(KINDS)
    tmp = pathlib.Path(tempfile.mkdtemp(prefix="verif_benign_"))
    try:
        for kind in kinds:
            d = tmp / kind
            make_variant(kind, d)
            with concurrent.futures.ProcessPoolExecutor(max_workers=10) as ex:
                res = list(ex.map(run_check, [(p, str(d)) for p in PROPS]))
            bad = [(p, rc, lines, err) for p, rc, lines, err in res if rc != 0]
            print(f"== variant {kind}: {len(res) - len(bad)}/{len(res)} checks silent")
            for p, rc, lines, err in bad:
                print(f"  {p} exit={rc}")
                for l in (lines + err)[:12]:
                    print("     ", l.strip()[:230])
    finally:
        shutil.rmtree(tmp, ignore_errors=True)


if __name__ == "__main__":
    main()
