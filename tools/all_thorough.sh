#!/bin/bash
# Run the thorough tier of every check against /repo and print the audit lines; exit 1 when a check fails or a mutant does not apply.
cd "$(dirname "$0")/.."
bad=0
for i in $(seq -w 1 20); do
  out=$(/venv/bin/python check.py C$i --tier thorough --no-evidence 2>&1 | grep -v "^WARNING conda")
  echo "$out" | grep "sensitivity audit" | cut -c1-160
  echo "$out" | tail -1 | grep -q " OK:" || { bad=1; echo "$out" | grep "ANALYSIS-ERROR\|VIOLATION" | head -3 | cut -c1-300; }
  echo "$out" | grep "sensitivity audit" | grep -q "this tree: \[\]" || { bad=1; echo "  ^ mutants that no longer apply"; }
done
[ $bad == 0 ] && echo "all 20 thorough runs OK"
exit $bad
