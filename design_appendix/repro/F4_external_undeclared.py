import asyncio, os, sys
sys.path.insert(0, "/repo/tests")
from conftest import fake_hash, declare_static
from stepup.core.sqlite3 import DBSession
from stepup.core.workflow import Workflow
from stepup.core.step import Step
from stepup.core.file import File
from stepup.core.enums import *
from stepup.core.nglob import NamedGlob
from stepup.core.hash import StepHash, FileHash

async def main():
    with DBSession.open(":memory:") as db:
        wf = Workflow(db, dir_queue=None)
        await wf.initialize()
        async with db:
            declare_static(wf, wf.root, ["plan.py"])
            wf.define_step(wf.root, "./plan.py", inp_paths=["plan.py"], need=Need.PLAN, _safe=True)
            plan = wf.find(Step, "./plan.py")
            plan.set_state(StepState.RUNNING)
            wf.define_step(plan, "cat x.txt", inp_paths=["x.txt"])   # x.txt undeclared
            ng = NamedGlob("*.txt"); ng.extend([])
            wf.register_nglob(plan, ng)
            f = wf.find(File, "x.txt")
            print("x.txt", f.get_state(), f.is_detached())
            print("relevant?", wf.change_is_relevant("x.txt"))
            old = wf.get_file_hashes({"x.txt"})
            print("old", old)
            try:
                wf.update_file_hashes({"x.txt": fake_hash("x.txt")}, cause=HashUpdateCause.EXTERNAL)
            except Exception as e:
                print("EXC", type(e).__name__, e)
asyncio.run(main())
