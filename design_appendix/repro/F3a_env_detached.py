import asyncio, os, sys
sys.path.insert(0, "/repo/tests")
from conftest import fake_hash, declare_static
from stepup.core.sqlite3 import DBSession
from stepup.core.workflow import Workflow
from stepup.core.step import Step
from stepup.core.file import File
from stepup.core.enums import *
from stepup.core.hash import StepHash, FileHash
from stepup.core import startup

class Rep:
    async def __call__(self, *a, **k): print("REPORT", a)

async def main():
    with DBSession.open(":memory:") as db:
        wf = Workflow(db, dir_queue=None)
        await wf.initialize()
        os.environ["XVAR"] = "1"
        async with db:
            declare_static(wf, wf.root, ["plan.py"])
            wf.define_step(wf.root, "./plan.py", inp_paths=["plan.py"], need=Need.PLAN, _safe=True)
            plan = wf.find(Step, "./plan.py")
            plan.set_state(StepState.RUNNING)
            wf.define_step(plan, "echo $XVAR > out", env_deps=["XVAR"], out_paths=["out"], shell=True)
            s = wf.find(Step, "echo $XVAR > out")
            # pretend S ran and succeeded
            s.set_state(StepState.RUNNING)
            wf.update_file_hashes({"out": fake_hash("out")}, cause=HashUpdateCause.SUCCEEDED)
            s.mark_completed(StepHash(b"x"*32, None, b"y"*32, None), False)
            plan.mark_completed(StepHash(b"p"*32, None, b"q"*32, None), False)
            print("S state", s.get_state(), "out", wf.find(File,"out").get_state())
            # plan is rerun with a version not defining S
            wf.mark_step_pending(plan)
            plan.set_state(StepState.RUNNING)
            plan.reset_for_rerun()
            plan.mark_completed(StepHash(b"P"*32, None, b"q"*32, None), False)
            print("after drop: S detached", s.is_detached(), s.get_state())
        # restart with XVAR changed
        os.environ["XVAR"] = "2"
        await startup.rescan_env_vars(wf, Rep())
        async with db:
            print("after env rescan: S", s.get_state())
            # plan v3 == v1 : re-add S
            wf.mark_step_pending(plan)
            plan.set_state(StepState.RUNNING)
            plan.reset_for_rerun()
            wf.define_step(plan, "echo $XVAR > out", env_deps=["XVAR"], out_paths=["out"], shell=True)
            plan.mark_completed(StepHash(b"p"*32, None, b"q"*32, None), False)
            print("after re-add: S detached", s.is_detached(), s.get_state(), "out", wf.find(File,"out").get_state(), "hash", s.get_hash() is not None)
            print(db.execute("select name,value from env_var").fetchall())
asyncio.run(main())
