import asyncio, os, sys
sys.path.insert(0, "/repo/tests")
from conftest import fake_hash, declare_static
from stepup.core.sqlite3 import DBSession
from stepup.core.workflow import Workflow
from stepup.core.step import Step
from stepup.core.file import File
from stepup.core.enums import *

async def mk():
    stack = DBSession.open(":memory:")
    db = stack.__enter__()
    wf = Workflow(db, dir_queue=None)
    await wf.initialize()
    async with db:
        declare_static(wf, wf.root, ["plan.py"])
        wf.define_step(wf.root, "./plan.py", inp_paths=["plan.py"], need=Need.PLAN, _safe=True)
        plan = wf.find(Step, "./plan.py")
        plan.set_state(StepState.RUNNING)
        wf.define_step(plan, "A"); wf.define_step(plan, "B")
    return stack, db, wf, wf.find(Step,"A") if False else None

async def run(order, fa, fb):
    with DBSession.open(":memory:") as db:
        wf = Workflow(db, dir_queue=None)
        await wf.initialize()
        async with db:
            declare_static(wf, wf.root, ["plan.py"])
            wf.define_step(wf.root, "./plan.py", inp_paths=["plan.py"], need=Need.PLAN, _safe=True)
            plan = wf.find(Step, "./plan.py"); plan.set_state(StepState.RUNNING)
            wf.define_step(plan, "A"); wf.define_step(plan, "B")
            a = wf.find(Step, "A"); b = wf.find(Step, "B")
            fs = [lambda: fa(wf,a), lambda: fb(wf,b)]
            if order: fs.reverse()
            try:
                fs[0](); fs[1]()
                return "accepted"
            except Exception as e:
                return f"{type(e).__name__}: {e}"

async def main():
    cases = {
     "nested trees": (lambda wf,a: wf.register_static_tree(a, "d/"), lambda wf,b: wf.register_static_tree(b, "d/sub/")),
     "vol vs input": (lambda wf,a: wf.define_step(a, "mk", vol_paths=["v"]), lambda wf,b: wf.define_step(b, "use", inp_paths=["v"])),
     "tree vs out": (lambda wf,a: wf.register_static_tree(a, "d/"), lambda wf,b: wf.define_step(b, "mk", out_paths=["d/o"])),
     "tree case": (lambda wf,a: wf.register_static_tree(a, "sub/"), lambda wf,b: wf.define_step(b, "mk", out_paths=["Sub/o"])),
    }
    for name,(fa,fb) in cases.items():
        r0 = await run(False, fa, fb); r1 = await run(True, fa, fb)
        print(name, "\n  AB:", r0, "\n  BA:", r1, "\n  same:", r0==r1)
asyncio.run(main())
