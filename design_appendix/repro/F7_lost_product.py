import asyncio, os, sys
sys.path.insert(0, "/repo/tests")
from conftest import fake_hash, declare_static, amend_step
from stepup.core.sqlite3 import DBSession
from stepup.core.workflow import Workflow
from stepup.core.step import Step
from stepup.core.file import File
from stepup.core.enums import *
from stepup.core.hash import StepHash
H = lambda c: StepHash(c*32, None, c*32, None)
def run_plan(wf, plan, with_sub):
    wf.mark_step_pending(plan); plan.set_state(StepState.RUNNING); plan.reset_for_rerun()
    declare_static(wf, plan, ["sub.py"])
    if with_sub:
        wf.define_step(plan, "./sub.py", inp_paths=["sub.py"], need=Need.PLAN)
    wf.define_step(plan, "T")
    plan.mark_completed(H(b"p"), False)
async def main():
    with DBSession.open(":memory:") as db:
        wf = Workflow(db, dir_queue=None)
        await wf.initialize()
        async with db:
            declare_static(wf, wf.root, ["plan.py"])
            wf.define_step(wf.root, "./plan.py", inp_paths=["plan.py"], need=Need.PLAN, _safe=True)
            plan = wf.find(Step, "./plan.py"); plan.set_state(StepState.RUNNING)
            declare_static(wf, plan, ["sub.py"])
            wf.define_step(plan, "./sub.py", inp_paths=["sub.py"], need=Need.PLAN)
            wf.define_step(plan, "T")
            sub = wf.find(Step, "./sub.py"); T = wf.find(Step, "T")
            sub.set_state(StepState.RUNNING)
            wf.define_step(sub, "P", out_paths=["O", "O2"])
            sub.mark_completed(H(b"s"), False)
            P = wf.find(Step, "P"); P.set_state(StepState.RUNNING)
            wf.update_file_hashes({"O": fake_hash("O"), "O2": fake_hash("O2")}, cause=HashUpdateCause.SUCCEEDED)
            P.mark_completed(H(b"P"), False)
            T.set_state(StepState.RUNNING)
            amend_step(wf, T, inp_paths=["O"])
            T.mark_completed(H(b"T"), False)
            plan.mark_completed(H(b"p"), False)
            # build 2: plan without sub
            run_plan(wf, plan, False)
            print("after drop: P", P.get_state().name, P.is_detached(), "T", T.get_state().name)
            wf.delete_detached()
            print("to_be_deleted", dict(wf.to_be_deleted))
            print("P in graph", P.in_graph(), "hash", P.get_hash() is not None if P.in_graph() else None, "sub in graph", sub.in_graph())
            # build 3: re-add sub unchanged
            run_plan(wf, plan, True)
            print("sub", sub.get_state().name, sub.is_detached(), "hash", sub.get_hash() is not None)
            print("P", P.get_state().name, P.is_detached(), "hash", P.get_hash() is not None)
            print("P outs", [r.path for r in P.out_paths()])
            print("O2 node", wf.find(File, "O2"))
asyncio.run(main())
