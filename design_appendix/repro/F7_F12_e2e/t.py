#!/usr/bin/env python3
from stepup.core.api import amend

amend(inp="O.txt")
with open("O.txt") as fh, open("t.out", "w") as out:
    out.write(fh.read())
