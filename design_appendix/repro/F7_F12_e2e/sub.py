#!/usr/bin/env python3
from stepup.core.api import step

step("echo one > O.txt; echo two > O2.txt", out=["O.txt", "O2.txt"], shell=True)
