#!/usr/bin/env -S bash -x
source ../example.rc
cp plan_v1.py plan.py
sb -j 1 > current_stdout1.txt
ls
cp plan_v2.py plan.py
sb -j 1 > current_stdout2.txt
ls
cp plan_v1.py plan.py
sb -j 1 > current_stdout3.txt
ls
stepup graph current_graph3 || true
