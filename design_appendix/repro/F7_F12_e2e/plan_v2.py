#!/usr/bin/env python3
from stepup.core.api import plan, static

static("sub.py", "other.py", "t.py")
plan("./other.py")
