#!/usr/bin/env python3
from stepup.core.api import run

run("./t.py", inp="t.py", out="t.out")
