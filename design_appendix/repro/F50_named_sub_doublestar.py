#!/usr/bin/env python3
"""F50 (C17): a named wildcard whose substitution is `**` inside a path component.

The regex compiler compiles the substitution on its own (`**` alone -> `.*`, crosses directories), the glob
compiler pastes it into the pattern (`src/**.py`, where Python's glob treats `**` as `*`).  The file-system scan
and the matcher that drives incremental updates then disagree.
Run: PYTHONPATH=/repo /venv/bin/python F50_named_sub_doublestar.py   (exit 1 = defect shown)
"""
import os
import sys
import tempfile

from stepup.core.nglob import NamedGlob

with tempfile.TemporaryDirectory() as d:
    os.chdir(d)
    os.makedirs("src/pkg")
    for p in ("src/a.py", "src/pkg/b.py"):
        open(p, "w").close()
    ng = NamedGlob("src/${*mod}.py", {"mod": "**"})
    ng.glob()
    scan = sorted(str(p) for p in ng.files())
    upd = ng.will_change(set(), {"src/pkg/b.py"})
    inc = scan if upd is None else sorted(str(p) for p in upd.files())
    print("scan       :", scan)
    print("incremental:", inc)
    if scan != inc:
        print("DEFECT (C17): the incremental update records a path that a fresh scan of the same pattern does not return")
        sys.exit(1)
print("no defect observed")
