"""F15 (C08, C01): a static tree (or a glob pattern) registered by a step is revived without any
check when that step is fully recycled and skipped, although a conflicting output was declared
while it was detached.  Run: cd <empty tmp dir> && /venv/bin/python <this file>

History: plan.py (RUNNING) defines ./sub.py; sub.py runs, registers static tree data/ and succeeds
(hash stored).  plan.py is rerun: reset_for_rerun() detaches sub.py and, with it, data/.  The new
run of plan.py first defines a step with output data/x.txt (accepted: the tree is detached) and
then re-defines ./sub.py identically -> full recycle -> data/ is attached again.
From scratch, either order of the two declarations is rejected; here both end up attached.
"""
import asyncio, sys
sys.path.insert(0, "/repo/tests")
from conftest import declare_static
from stepup.core.sqlite3 import DBSession
from stepup.core.workflow import Workflow
from stepup.core.step import Step
from stepup.core.file import File
from stepup.core.enums import Need, StepState
from stepup.core.hash import StepHash
from stepup.core.exceptions import GraphError


async def main():
    with DBSession.open(":memory:") as db:
        wf = Workflow(db, dir_queue=None)
        await wf.initialize()
        async with db:
            declare_static(wf, wf.root, ["plan.py", "sub.py"])
            wf.define_step(wf.root, "./plan.py", inp_paths=["plan.py"], need=Need.PLAN, _safe=True)
            plan = wf.find(Step, "./plan.py")
            plan.set_state(StepState.RUNNING)
            wf.define_step(plan, "./sub.py", inp_paths=["sub.py"], need=Need.PLAN)
            sub = wf.find(Step, "./sub.py")
            sub.set_state(StepState.RUNNING)
            wf.register_static_tree(sub, "data/")
            sub.set_state(StepState.SUCCEEDED)
            sub.set_hash(StepHash.from_inp("./sub.py", {}, {}, explained=False).with_out_hashes({}))
        # control: from scratch, the conflicting output is rejected
        try:
            async with db:
                wf.define_step(plan, "echo > data/x.txt", out_paths=["data/x.txt"])
            print("control: NOT rejected (unexpected)")
        except GraphError as exc:
            print("control (tree attached): rejected:", str(exc).splitlines()[0][:90])
        async with db:
            plan.set_state(StepState.PENDING)
            plan.set_state(StepState.RUNNING)
            plan.reset_for_rerun()                      # detaches sub.py and data/
            wf.define_step(plan, "echo > data/x.txt", out_paths=["data/x.txt"])   # accepted
            wf.define_step(plan, "./sub.py", inp_paths=["sub.py"], need=Need.PLAN)  # recycled
            rows = list(db.execute("SELECT kind, label, detached FROM node WHERE label IN ('data/', 'data/x.txt')"))
            print("after recycle:", rows, " sub.py state:", sub.get_state().name, "hash kept:", sub.get_hash() is not None)
            both = all(not d for _, _, d in rows) and len(rows) == 2
            will_rerun = sub.get_state() == StepState.PENDING and sub.get_hash() is None
        if both and not will_rerun:
            print("C08 VIOLATED: static tree data/ and step output data/x.txt are both attached and sub.py will be skipped")
            return 1
        # sub.py runs again: its static("data/") is now rejected, as in a build from scratch
        try:
            async with db:
                sub.set_state(StepState.RUNNING)
                sub.reset_for_rerun()
                wf.register_static_tree(sub, "data/")
            print("rerun of sub.py: static tree accepted (unexpected)")
            return 1
        except GraphError as exc:
            print("rerun of sub.py: rejected:", str(exc).splitlines()[0][:90])
        print("ok")
        return 0


sys.exit(asyncio.run(main()))
