"""F16 (C11, C10): deleting a dependency edge file -> consumer does not flag the *producer* of the
file, so an OPTIONAL producer keeps the implied need it got from that consumer.
Run: cd <empty tmp dir> && /venv/bin/python <this file>

History: ./prod (OPTIONAL) builds f.txt; ./cons (DEFAULT) amends inp f.txt while running ->
prod._implied_need becomes DEFAULT (needed).  cons is rerun: reset_for_rerun() drops the dynamic
edge f.txt -> cons, and this time cons does not amend f.txt.  Nothing needs prod any more.
Expected: prod._implied_need back to OPTIONAL after the next metadata pass.
"""
import asyncio, sys
sys.path.insert(0, "/repo/tests")
from conftest import declare_static
from stepup.core.sqlite3 import DBSession
from stepup.core.workflow import Workflow
from stepup.core.step import Step
from stepup.core.enums import Need, StepState
from stepup.core.scheduler import Scheduler


async def main():
    with DBSession.open(":memory:") as db:
        wf = Workflow(db, dir_queue=None)
        await wf.initialize()
        sched = Scheduler(wf, db=db)
        await sched.initialize(None)

        def need(step):
            return Need(db.execute("SELECT _implied_need FROM step WHERE node = ?", (step.i,)).fetchone()[0]).name

        async with db:
            declare_static(wf, wf.root, ["plan.py"])
            wf.define_step(wf.root, "./plan.py", inp_paths=["plan.py"], need=Need.PLAN, _safe=True)
            plan = wf.find(Step, "./plan.py")
            plan.set_state(StepState.RUNNING)
            wf.define_step(plan, "./prod", out_paths=["f.txt"], need=Need.OPTIONAL)
            wf.define_step(plan, "./cons")
            prod, cons = wf.find(Step, "./prod"), wf.find(Step, "./cons")
            sched._update_meta_after()
            print("before amend:      prod need =", need(prod))
            cons.set_state(StepState.RUNNING)
            wf.amend_step(cons, inp_paths=["f.txt"], ran_concurrently=sched.ran_concurrently)
            sched._update_meta_after()
            print("after amend:       prod need =", need(prod))
            cons.set_state(StepState.PENDING)
            cons.set_state(StepState.RUNNING)
            cons.reset_for_rerun()          # drops the dynamic edge f.txt -> cons
            sched._update_meta_after()
            n = need(prod)
            print("after edge drop:   prod need =", n)
        bad = n != "OPTIONAL"
        print("C11 VIOLATED: nothing consumes f.txt any more, yet ./prod is still needed" if bad else "ok")
        return 1 if bad else 0


sys.exit(asyncio.run(main()))
