#!/usr/bin/env python3
"""F54 (C05): a director killed between applying the schema and creating the root node.

The first start of a project applies the schema (committed) and creates the root node in the next transaction.
Killed in between, the database has all tables and no root: every later start took the 'existing database' branch,
found no root and died in `_check_consistency` with AttributeError ('NoneType' object has no attribute 'i').
Run: PYTHONPATH=/repo /venv/bin/python F54_kill_before_root.py   (exit 1 = defect shown)
"""
import asyncio
import os
import sys
import tempfile

from stepup.core.sqlite3 import DBSession
from stepup.core.workflow import Workflow


async def main():
    with tempfile.TemporaryDirectory() as d:
        os.chdir(d)
        path = os.path.join(d, "graph.db")
        # first start, killed right after the schema was applied
        with DBSession.open(path) as db:
            wf = Workflow(db, dir_queue=None)
            scripts = [wf.schema()] + [s for c in wf.node_classes.values() if (s := c.schema()) is not None]
            await db.apply_schema(wf.application_id, wf.schema_version, scripts)
        # restart
        with DBSession.open(path) as db:
            wf = Workflow(db, dir_queue=None)
            try:
                await wf.initialize()
            except Exception as exc:  # noqa: BLE001
                print(f"DEFECT (C05): the restart fails with {type(exc).__name__}: {exc}")
                return 1
        print("restart opens the database: root =", wf.root)
        return 0


sys.exit(asyncio.run(main()))
