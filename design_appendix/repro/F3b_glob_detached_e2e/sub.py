#!/usr/bin/env python3
from stepup.core.api import copy, static

for path in static("inp_*.txt"):
    copy(path, path[:-4] + ".out")
