#!/usr/bin/env python3
from stepup.core.api import static

static("sub.py")
