#!/usr/bin/env -S bash -x
source ../example.rc
cp plan_v1.py plan.py
sb -j 1 > current_stdout1.txt
cp plan_v2.py plan.py
sb -j 1 --no-clean > current_stdout2.txt
echo b > inp_b.txt
cp plan_v1.py plan.py
sb -j 1 > current_stdout3.txt
ls *.out
