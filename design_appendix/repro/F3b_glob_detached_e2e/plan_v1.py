#!/usr/bin/env python3
from stepup.core.api import plan, static

static("sub.py")
plan("./sub.py")
