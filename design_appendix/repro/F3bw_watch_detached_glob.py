"""F3b-watch (known finding, C14 R-C14-2): the watcher's relevance test ignores glob patterns of
detached steps, the restart rescan does not.  Run: cd <empty tmp dir> && /venv/bin/python <this file>
Shows, on one in-memory workflow with a detached plan step that registered glob('*.txt'):
 - restart side: startup.rescan_nglobs finds the new match, drops the step's hash and re-pends it;
 - watch side: Workflow.change_is_relevant('new.txt') is False, so Watcher.record_change never records
   the file and process_nglob_changes is never told about it: the step keeps state and hash and is
   recycled as up to date (the F3b history, watch flavour).
"""
import asyncio, os, sys
sys.path.insert(0, "/repo/tests")
from conftest import declare_static
from stepup.core.sqlite3 import DBSession
from stepup.core.workflow import Workflow
from stepup.core.step import Step
from stepup.core.enums import Need, StepState
from stepup.core.nglob import NamedGlob
from stepup.core.hash import StepHash
from stepup.core import startup


class Rep:
    async def __call__(self, *a, **k):
        pass


async def make(db):
    wf = Workflow(db, dir_queue=None)
    await wf.initialize()
    async with db:
        declare_static(wf, wf.root, ["plan.py"])
        wf.define_step(wf.root, "./plan.py", inp_paths=["plan.py"], need=Need.PLAN, _safe=True)
        plan = wf.find(Step, "./plan.py")
        plan.set_state(StepState.RUNNING)
        wf.define_step(plan, "./sub.py", need=Need.PLAN)
        sub = wf.find(Step, "./sub.py")
        ng = NamedGlob("*.txt"); ng.extend(["a.txt"])
        wf.register_nglob(sub, ng)
        sub.set_state(StepState.SUCCEEDED)
        sub.set_hash(StepHash.from_inp("./sub.py", {}, {}, explained=False).with_out_hashes({}))
        sub.detach()   # plan.py was edited and no longer defines sub.py; no cleanup (--no-clean / failed build)
    return wf


async def main():
    for name in ("a.txt", "new.txt"):
        open(name, "w").close()
    with DBSession.open(":memory:") as db:
        wf = await make(db)
        async with db:
            print("watch side: change_is_relevant('new.txt') =", wf.change_is_relevant("new.txt"))
            sub = wf.find(Step, "./sub.py")
            print("watch side: step state/hash unchanged:", sub.get_state().name, sub.get_hash() is not None)
        await startup.rescan_nglobs(wf, Rep())
        async with db:
            sub = wf.find(Step, "./sub.py")
            print("restart side after rescan_nglobs: state", sub.get_state().name, "hash kept:", sub.get_hash() is not None)


asyncio.run(main())
