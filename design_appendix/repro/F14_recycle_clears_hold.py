"""F14 (C12, hold clause): Step.after_recycle resets `_holding` to 0 although a detached step can be
recycled while its command is still RUNNING inside a hold() block.
Run: cd <empty tmp dir> && /venv/bin/python <this file>

History (all through the public Workflow/Step/Scheduler methods, in-memory database):
  plan.py RUNNING defines ./a.py; a.py starts opportunistically (creator running), enters hold(),
  defines ./b.py inside the block.  plan.py then defers (accepted defer keeps products attached),
  is woken up and dispatched again: reset_for_rerun() detaches a.py (still RUNNING, not killed, by
  design) and b.py with it; the new run of plan.py re-declares ./a.py identically -> full recycle:
  reattach (b.py attached again) + after_recycle (`_holding = 0`).
Expected (C12): b.py is not dispatched before a.py releases its hold.
Observed: the scheduler hands out b.py while a.py is still RUNNING inside hold().
"""
import asyncio, sys
sys.path.insert(0, "/repo/tests")
from conftest import declare_static
from stepup.core.sqlite3 import DBSession
from stepup.core.workflow import Workflow
from stepup.core.step import Step
from stepup.core.enums import Need, StepState
from stepup.core.scheduler import Scheduler


async def main():
    with DBSession.open(":memory:") as db:
        wf = Workflow(db, dir_queue=None)
        await wf.initialize()
        sched = Scheduler(wf, db=db)
        await sched.initialize(None)
        async with db:
            declare_static(wf, wf.root, ["plan.py", "a.py", "b.py"])
            wf.define_step(wf.root, "./plan.py", inp_paths=["plan.py"], need=Need.PLAN, _safe=True)
            plan = wf.find(Step, "./plan.py")
            plan.set_state(StepState.RUNNING)
            wf.define_step(plan, "./a.py", inp_paths=["a.py"])
            a = wf.find(Step, "./a.py")
            a.set_state(StepState.RUNNING)          # dispatched opportunistically while plan.py runs
            a.hold()                                # with hold(): ...
            wf.define_step(a, "./b.py", inp_paths=["b.py"])
            b = wf.find(Step, "./b.py")
            print("inside hold():   a._holding =", db.execute("SELECT _holding FROM step WHERE node=?", (a.i,)).fetchone()[0])
        job = await sched.pop_next_job()
        print("dispatchable while held:", None if job is None else job.name)
        async with db:
            # plan.py defers and is later dispatched again
            plan.set_state(StepState.PENDING)
            plan.set_state(StepState.RUNNING)
            plan.reset_for_rerun()
            print("after reset_for_rerun: a detached =", a.is_detached(), " a state =", a.get_state().name)
            wf.define_step(plan, "./a.py", inp_paths=["a.py"])   # identical re-declaration -> recycle
            print("after recycle:   a detached =", a.is_detached(), " a state =", a.get_state().name,
                  " a._holding =", db.execute("SELECT _holding FROM step WHERE node=?", (a.i,)).fetchone()[0],
                  " b detached =", b.is_detached())
        job = await sched.pop_next_job()
        print("dispatchable now:", None if job is None else job.name)
        bad = job is not None and "b.py" in job.name
        print("C12 VIOLATED: b.py is handed out while a.py is still inside hold()" if bad else "ok")
        return 1 if bad else 0


sys.exit(asyncio.run(main()))
