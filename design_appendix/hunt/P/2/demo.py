#!/usr/bin/env python3
"""A late IGNORED event makes the watcher forget a watch it has just re-installed.

Run as:  cd /tmp/hunt_P && PYTHONPATH=/tmp/hunt_P /venv/bin/python _found/2/demo.py

Part A drives `AsyncInotifyWrapper` exactly like `Watcher.loop` does (`async with`, directories
arrive over `dir_queue` as `Workflow.watch_dir` puts them there) on a real directory and real
inotify events.  Part B runs a real `stepup build -w` and compares `stepup rebuild` with a
restart on the same tree (property C14).  The director is stopped (SIGSTOP, by PID, our own
process) while the two file-system operations are made, which only makes the schedule
"both operations happen before the director handles the first event" deterministic.
Exits 1 when the defect shows.
"""

import asyncio
import os
import re
import shutil
import signal
import subprocess
import sys
import tempfile
import time

sys.path.insert(0, "/tmp/hunt_P")
from path import Path  # noqa: E402

from stepup.core.watcher import AsyncInotifyWrapper  # noqa: E402

SCRATCH = "/tmp/hunt_P/_scratch"
ENV = dict(os.environ, PATH="/venv/bin:" + os.environ["PATH"], PYTHONPATH="/tmp/hunt_P")
for name in list(ENV):
    if name.startswith("STEPUP_"):
        del ENV[name]


async def drain(wrapper):
    await asyncio.sleep(0.3)
    items = []
    while not wrapper.change_queue.empty():
        change, path = wrapper.change_queue.get_nowait()
        items.append((change.name, str(path)))
    return items


async def part_a(root) -> list[str]:
    problems = []
    os.chdir(root)
    os.makedirs("data/sub")
    Path("data/sub/x.txt").write_text("x")
    dir_queue = asyncio.Queue()
    async with AsyncInotifyWrapper(dir_queue=dir_queue) as wrapper:
        dir_queue.put_nowait(Path("data/sub"))
        await drain(wrapper)
        print("A: watches after start       :", fmt(wrapper))
        # The history of commit fe7caea: `mv data other; mkdir -p data/sub`,
        # both done before the director gets to handle the first event.
        os.rename("data", "other")
        os.makedirs("data/sub")
        Path("data/sub/x.txt").write_text("x")
        print("A: changes after mv + mkdir  :", await drain(wrapper))
        print("A: watches after mv + mkdir  :", fmt(wrapper))
        # The kernel watches exist (events of data/sub arrive) ...
        Path("data/sub/x.txt").write_text("xx")
        alive = await drain(wrapper)
        print("A: write data/sub/x.txt      :", alive)
        # ... but the wrapper has forgotten them.
        if alive and wrapper.watches.get(Path("data")) is None:
            problems.append(
                "A: the directory data is watched by the kernel, but watches['data'] is None: "
                "the IGNORED event of the removed old watch arrived after the new watch was "
                "installed and wiped it."
            )
        # Consequence 1: the next removal of the directory is not reported.
        os.rename("data", "gone")
        changes = await drain(wrapper)
        print("A: changes after mv data gone:", changes)
        if ("DELETED_PARENT", "data") not in changes:
            problems.append(
                "A: `mv data gone` produced no DELETED_PARENT for data, so the files below it "
                "are never recorded as deleted."
            )
        # Consequence 2: the watch of data/sub follows its inode and reports under the old path,
        # the very thing commit fe7caea set out to prevent.
        Path("gone/sub/y.txt").write_text("y")
        changes = await drain(wrapper)
        print("A: write gone/sub/y.txt      :", changes)
        if any(path == "data/sub/y.txt" for _, path in changes):
            problems.append(
                "A: a file created in gone/sub is reported as data/sub/y.txt, which does not exist."
            )
    return problems


def fmt(wrapper):
    return {str(k): (None if v is None else f"wd{v.wd}") for k, v in wrapper.watches.items()}


PLAN = """#!/usr/bin/env python3
from stepup.core.api import run, static
static("data/sub/inp.txt")
run("cat data/sub/inp.txt > out.txt", shell=True, inp="data/sub/inp.txt", out="out.txt")
"""


def stepup(*args):
    return subprocess.run(
        ["stepup", *args], env=ENV, text=True, capture_output=True, check=False, timeout=120
    )


def part_b(root) -> list[str]:
    problems = []
    os.chdir(root)
    Path("plan.py").write_text(PLAN)
    os.chmod("plan.py", 0o755)
    os.makedirs("data/sub")
    Path("data/sub/inp.txt").write_text("hi\n")
    with open("../director_stdout.txt", "w") as log:
        proc = subprocess.Popen(
            ["stepup", "build", "-j1", "-w"],
            env=ENV,
            stdout=log,
            stderr=subprocess.STDOUT,
            start_new_session=True,
        )
    try:
        stepup("wait")
        director_pid = int(re.search(r"^PID (\d+)$", Path(".stepup/director.log").read_text(), re.M)[1])
        # `mv data other; mkdir -p data/sub; echo hi > data/sub/inp.txt` while the director
        # does not get the CPU.
        os.kill(director_pid, signal.SIGSTOP)
        os.rename("data", "other")
        os.makedirs("data/sub")
        Path("data/sub/inp.txt").write_text("hi\n")
        os.kill(director_pid, signal.SIGCONT)
        stepup("wait", "-u", "data/sub/inp.txt")
        stepup("rebuild")
        stepup("wait")
        # Now the directory goes away for good.
        os.rename("data", "gone")
        time.sleep(1.0)
        stepup("rebuild")
        stepup("wait")
        stepup("join")
        rc_watch = proc.wait(timeout=60)
    finally:
        if proc.poll() is None:
            os.killpg(proc.pid, signal.SIGKILL)
    out_watch = Path("../director_stdout.txt").read_text()
    print("B: --- output of the watching director ---")
    print(out_watch)
    restart = stepup("build", "-j1")
    print("B: --- output of a restart on the same tree ---")
    print(restart.stdout)
    print(f"B: return code of the watching director: {rc_watch}, of the restart: {restart.returncode}")
    if rc_watch != restart.returncode:
        problems.append(
            f"B: after `mv data gone` the watch-mode rebuild ends with return code {rc_watch} "
            f"(data/sub/inp.txt still CONFIRMED), a restart with {restart.returncode} "
            "(DELETED data/sub/inp.txt, step pending)."
        )
    return problems


def main():
    os.makedirs(SCRATCH, exist_ok=True)
    top = tempfile.mkdtemp(prefix="found2_", dir=SCRATCH)
    cwd = os.getcwd()
    try:
        os.makedirs(f"{top}/a")
        os.makedirs(f"{top}/b/proj")
        problems = asyncio.run(part_a(f"{top}/a"))
        problems += part_b(f"{top}/b/proj")
    finally:
        os.chdir(cwd)
        shutil.rmtree(top, ignore_errors=True)
    if problems:
        print("DEFECT:")
        for problem in problems:
            print(" -", problem)
        sys.exit(1)
    print("No defect observed.")


if __name__ == "__main__":
    main()
