#!/usr/bin/env python3
"""A step that is redefined while its previous definition is still running is dispatched a
second time next to the run in progress; the two runs then fight over the step's record.

Run as:  cd /tmp/hunt_P && PYTHONPATH=/tmp/hunt_P /venv/bin/python _found/3/demo.py

One real `stepup build` from scratch, once with -j1 (the reference) and once with -j3.
Exits 1 when the -j3 build starts ./d.sh while ./d.sh is running, or ends differently
from the -j1 build.
"""

import os
import re
import shutil
import subprocess
import sys
import tempfile

SCRATCH = "/tmp/hunt_P/_scratch"
ENV = dict(os.environ, PATH="/venv/bin:" + os.environ["PATH"], PYTHONPATH="/tmp/hunt_P")
for name in list(ENV):
    if name.startswith("STEPUP_"):
        del ENV[name]

# The top-level plan defines the producer of cfg.txt and a nested plan.
PLAN = """#!/usr/bin/env python3
from stepup.core.api import plan, run, static
static("d.sh", "sub.py")
run("sleep 1; echo hello > cfg.txt", shell=True, out="cfg.txt")
plan("./sub.py")
"""

# A nested plan that learns something while it runs: it needs cfg.txt, so its first run is
# deferred and it runs again once cfg.txt is built.
# The second run knows more and declares cfg.txt as an input of ./d.sh.
SUB = """#!/usr/bin/env python3
import os
from stepup.core.api import amend, run
run("./d.sh", inp=(["cfg.txt"] if os.path.exists("cfg.txt") else []), out="slow.txt")
amend(inp="cfg.txt")
"""

# Without cfg.txt the script is slow and writes a placeholder.
D_SH = """#!/bin/sh
if [ -f cfg.txt ]; then cp cfg.txt slow.txt; else sleep 3; echo none > slow.txt; fi
"""


def write(path, text):
    with open(path, "w") as fh:
        fh.write(text)
    os.chmod(path, 0o755)


def build(root, njob):
    os.makedirs(root)
    os.chdir(root)
    write("plan.py", PLAN)
    write("d.sh", D_SH)
    write("sub.py", SUB)
    res = subprocess.run(
        ["stepup", "build", f"-j{njob}"],
        env=ENV,
        text=True,
        capture_output=True,
        check=False,
        timeout=300,
    )
    print(f"===== stepup build -j{njob}: return code {res.returncode}")
    print(res.stdout)
    content = open("slow.txt").read().strip() if os.path.exists("slow.txt") else None
    print(f"      slow.txt: {content!r}")
    return res.returncode, res.stdout, content


def overlapping_runs(stdout: str, label: str) -> bool:
    """Return whether `label` is started while a run of `label` has not ended yet."""
    running = 0
    for line in stdout.splitlines():
        m = re.match(r"\s*(START|SUCCESS|FAIL|DEFERRED) │ (.*)$", line)
        if m and m[2].strip() == label:
            if m[1] == "START":
                running += 1
                if running > 1:
                    return True
            else:
                running -= 1
    return False


def main():
    os.makedirs(SCRATCH, exist_ok=True)
    top = tempfile.mkdtemp(prefix="found3_", dir=SCRATCH)
    cwd = os.getcwd()
    try:
        rc1, _out1, content1 = build(f"{top}/j1", 1)
        rc3, out3, content3 = build(f"{top}/j3", 3)
    finally:
        os.chdir(cwd)
        shutil.rmtree(top, ignore_errors=True)

    problems = []
    if overlapping_runs(out3, "./d.sh"):
        problems.append(
            "with -j3 the command ./d.sh is started while an earlier run of the same step is "
            "still in progress (two START lines without a result in between)"
        )
    if "The director raised an exception" in out3:
        problems.append("with -j3 the director dies with an internal error (ConsistencyError)")
    if (rc1, content1) != (rc3, content3):
        problems.append(
            f"-j1 ends with return code {rc1} and slow.txt={content1!r}, "
            f"-j3 with return code {rc3} and slow.txt={content3!r}"
        )
    if problems:
        print("DEFECT:")
        for problem in problems:
            print(" -", problem)
        sys.exit(1)
    print("No defect observed.")


if __name__ == "__main__":
    main()
