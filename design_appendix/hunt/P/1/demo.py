#!/usr/bin/env python3
"""revert_optional_steps drops the amended input a deferred optional step is waiting for,
but leaves the step parked as `deferred`: it is never dispatched again.

Run as:  cd /tmp/hunt_P && PYTHONPATH=/tmp/hunt_P /venv/bin/python _found/1/demo.py

Three real `stepup build -j1` runs in a temporary project, then a build from scratch on the
same tree for comparison.  Exits 1 when the resumed build leaves steps pending that the build
from scratch completes.
"""

import os
import shutil
import sqlite3
import subprocess
import sys
import tempfile

SCRATCH = "/tmp/hunt_P/_scratch"
ENV = dict(os.environ, PATH="/venv/bin:" + os.environ["PATH"], PYTHONPATH="/tmp/hunt_P")
for name in list(ENV):
    if name.startswith("STEPUP_"):
        del ENV[name]

PLAN = """#!/usr/bin/env python3
from stepup.core.api import plan, run, static
static("o.py", "sub/plan.py")
run("./o.py", out="o.txt", optional=True)
plan("./plan.py", workdir="sub/")
"""

O_PY = """#!/usr/bin/env python3
from stepup.core.api import amend
amend(inp="extra.txt")
with open("extra.txt") as fi, open("o.txt", "w") as fo:
    fo.write(fi.read())
"""

# sub/plan.py, three versions
SUB_A = """#!/usr/bin/env python3
from stepup.core.api import copy
copy("../o.txt", "d.txt")
"""
SUB_B = """#!/usr/bin/env python3
"""
SUB_C = """#!/usr/bin/env python3
from stepup.core.api import copy, static
static("../extra.txt")
copy("../o.txt", "d.txt")
"""


def write(path, text, executable=False):
    with open(path, "w") as fh:
        fh.write(text)
    if executable:
        os.chmod(path, 0o755)


def build(title):
    res = subprocess.run(
        ["stepup", "build", "-j1"], env=ENV, text=True, capture_output=True, check=False, timeout=300
    )
    print(f"===== {title}: return code {res.returncode}")
    print(res.stdout)
    return res.returncode


def show_step():
    con = sqlite3.connect(".stepup/graph.db")
    row = con.execute(
        "SELECT step.state, step.deferred, step._implied_need, "
        "(SELECT COUNT(*) FROM dependency JOIN dynamic_dep ON dynamic_dep.i = dependency.i "
        " WHERE dependency.sink = node.i) "
        "FROM step JOIN node ON node.i = step.node WHERE node.label = './o.py'"
    ).fetchone()
    con.close()
    print(f"      ./o.py: state={row[0]} (21=PENDING) deferred={row[1]} "
          f"_implied_need={row[2]} amended inputs={row[3]}")
    return row


def main():
    os.makedirs(SCRATCH, exist_ok=True)
    root = tempfile.mkdtemp(prefix="found1_", dir=SCRATCH)
    cwd = os.getcwd()
    try:
        os.chdir(root)
        os.mkdir("sub")
        write("plan.py", PLAN, True)
        write("o.py", O_PY, True)

        write("sub/plan.py", SUB_A, True)
        build("build 1: o.py is needed by sub/d.txt, runs, amends the undeclared extra.txt, defers")
        show_step()

        write("sub/plan.py", SUB_B, True)
        rc2 = build("build 2: sub/plan.py drops the consumer; successful build, optional steps reverted")
        row = show_step()

        write("extra.txt", "hello\n")
        write("sub/plan.py", SUB_C, True)
        rc3 = build("build 3: sub/plan.py declares extra.txt static and needs o.txt again")
        show_step()
        rc4 = build("build 4: the same again, nothing changed")

        shutil.rmtree(".stepup")
        for path in ("o.txt", "sub/d.txt"):
            if os.path.exists(path):
                os.remove(path)
        rc_scratch = build("from scratch on the same tree")
        has_output = os.path.exists("sub/d.txt")
    finally:
        os.chdir(cwd)
        shutil.rmtree(root, ignore_errors=True)

    print(f"build 2 rc={rc2}, build 3 rc={rc3}, build 4 rc={rc4}, from scratch rc={rc_scratch}, "
          f"sub/d.txt from scratch: {has_output}")
    if rc_scratch == 0 and (rc3 != 0 or rc4 != 0):
        print(
            "DEFECT: after build 2 the step ./o.py is PENDING with deferred=1 and without any "
            f"amended input left (row {row}), so nothing can ever clear the flag: builds 3 and 4 end "
            f"with return code {rc3}/{rc4} (PENDING=16) and never start ./o.py, "
            "while a build from scratch on the same files succeeds."
        )
        sys.exit(1)
    print("No defect observed.")


if __name__ == "__main__":
    main()
