#!/usr/bin/env python3
"""C07: an orphaned output is pinned forever by the stale dynamic input of a reverted optional step.

Run as: cd /tmp/hunt_I && PYTHONPATH=/tmp/hunt_I /venv/bin/python _found/1/demo.py

Only the real `stepup build` command line is used, on an ordinary project in a temporary directory.
"""

import os
import sqlite3
import subprocess
import sys
import tempfile

ENV = {k: v for k, v in os.environ.items() if not k.startswith("STEPUP_")}
ENV["PATH"] = "/venv/bin:" + ENV.get("PATH", "")
ENV["PYTHONPATH"] = "/tmp/hunt_I"

PLAN_V1 = """\
#!/usr/bin/env python3
from stepup.core.api import run, static
static("merge.py")
run("echo data > raw.txt", shell=True, out="raw.txt")
run("./merge.py", out="merged.txt", optional=True)
run("cp merged.txt final.txt", inp="merged.txt", out="final.txt")
"""

# Version 2 drops the producer of raw.txt and the only consumer of the optional step.
PLAN_V2 = """\
#!/usr/bin/env python3
from stepup.core.api import run, static
static("merge.py")
run("./merge.py", out="merged.txt", optional=True)
"""

MERGE_PY = """\
#!/usr/bin/env python3
from stepup.core.api import amend
amend(inp="raw.txt")
with open("raw.txt") as fi, open("merged.txt", "w") as fo:
    fo.write(fi.read())
"""


def write(root, name, text):
    path = os.path.join(root, name)
    with open(path, "w") as fh:
        fh.write(text)
    os.chmod(path, 0o755)


def build(root):
    cp = subprocess.run(
        ["stepup", "build", "-j1", "--no-progress"],
        cwd=root,
        env=ENV,
        capture_output=True,
        text=True,
        timeout=120,
        check=False,
    )
    return cp.returncode, cp.stdout + cp.stderr


def listing(root):
    return sorted(name for name in os.listdir(root) if name not in (".stepup", "__pycache__"))


def main():
    with tempfile.TemporaryDirectory(prefix="hunt_I_1_") as base:
        resumed = os.path.join(base, "resumed")
        fresh = os.path.join(base, "fresh")
        os.mkdir(resumed)
        os.mkdir(fresh)

        # Build 1: everything is needed and built. merge.py amends raw.txt as a dynamic input.
        write(resumed, "merge.py", MERGE_PY)
        write(resumed, "plan.py", PLAN_V1)
        rc1, out1 = build(resumed)
        assert rc1 == 0, out1
        assert listing(resumed) == ["final.txt", "merge.py", "merged.txt", "plan.py", "raw.txt"], (
            listing(resumed)
        )

        # Build 2 and 3: the plan no longer defines the producer of raw.txt,
        # and the optional step is no longer needed.
        write(resumed, "plan.py", PLAN_V2)
        rc2, out2 = build(resumed)
        rc3, out3 = build(resumed)
        print("---- build 2 (resumed) ----")
        print(out2)
        print("---- build 3 (resumed) ----")
        print(out3)
        assert rc2 == 0 and rc3 == 0, "resumed builds are expected to succeed with cleaning"
        assert "Skipping file cleanup" not in out2 + out3

        # Reference: the same final project, built from scratch.
        write(fresh, "merge.py", MERGE_PY)
        write(fresh, "plan.py", PLAN_V2)
        rcf, outf = build(fresh)
        assert rcf == 0, outf

        con = sqlite3.connect(os.path.join(resumed, ".stepup", "graph.db"))
        detached = con.execute(
            "SELECT kind, label FROM node WHERE detached ORDER BY kind, label"
        ).fetchall()
        holders = con.execute(
            "SELECT snode.label, step.state, step._implied_need, "
            "dependency.i IN (SELECT i FROM dynamic_dep) "
            "FROM dependency JOIN node AS fnode ON fnode.i = source "
            "JOIN node AS snode ON snode.i = sink JOIN step ON step.node = sink "
            "WHERE fnode.label = 'raw.txt'"
        ).fetchall()
        con.close()

        print("files after two successful cleaning builds (resumed):", listing(resumed))
        print("files after a build from scratch of the same project:", listing(fresh))
        print("detached nodes left in the resumed graph:", detached)
        print("(consumer, state, _implied_need, dynamic) edges holding raw.txt:", holders)

        problems = []
        if os.path.exists(os.path.join(resumed, "raw.txt")):
            problems.append(
                "raw.txt, an unmodified output of a step that the workflow no longer defines, "
                "is still on disk after successful unrestricted builds with cleaning"
            )
        if detached:
            problems.append(f"detached nodes remain in the graph: {detached}")
        if listing(resumed) != listing(fresh):
            problems.append("the resumed project differs from the same project built from scratch")
        if problems:
            print("DEFECT (C07):")
            for problem in problems:
                print(" -", problem)
            return 1
        print("no defect observed")
        return 0


if __name__ == "__main__":
    sys.exit(main())
