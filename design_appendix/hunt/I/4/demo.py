#!/usr/bin/env python3
"""C11: a step that the plan no longer defines is executed and overwrites a static (user) file.

Run as: cd /tmp/hunt_I && PYTHONPATH=/tmp/hunt_I /venv/bin/python _found/4/demo.py

Only the real `stepup build` command line is used, on an ordinary project in a temporary directory.
The history: the user takes over a generated file (drops the step that generates it from a
sub-plan, declares the file static, edits it by hand) and runs `stepup build -j 3`
(any -j >= 3; the default is the number of cores).
"""

import os
import subprocess
import sys
import tempfile

ENV = {k: v for k, v in os.environ.items() if not k.startswith("STEPUP_")}
ENV["PATH"] = "/venv/bin:" + ENV.get("PATH", "")
ENV["PYTHONPATH"] = "/tmp/hunt_I"

HEAD = "#!/usr/bin/env python3\nfrom stepup.core.api import plan, run, static\n"

PLAN_V1 = HEAD + 'static("sub.py", "inp.txt")\nplan("./sub.py")\n'
SUB_V1 = HEAD + 'run("cp inp.txt b.txt", inp="inp.txt", out="b.txt")\n'

# Version 2: sub.py no longer defines the step, b.txt is a static file now.
PLAN_V2 = HEAD + 'static("sub.py", "inp.txt", "b.txt")\nplan("./sub.py")\n'
SUB_V2 = HEAD

USER_CONTENT = "hand-made by the user\n"


def write(root, name, text):
    path = os.path.join(root, name)
    with open(path, "w") as fh:
        fh.write(text)
    os.chmod(path, 0o755)


def build(root, njob):
    cp = subprocess.run(
        ["stepup", "build", f"-j{njob}", "--no-progress"],
        cwd=root,
        env=ENV,
        capture_output=True,
        text=True,
        timeout=120,
        check=False,
    )
    return cp.returncode, cp.stdout + cp.stderr


def history(base, name, njob):
    root = os.path.join(base, name)
    os.mkdir(root)
    write(root, "plan.py", PLAN_V1)
    write(root, "sub.py", SUB_V1)
    write(root, "inp.txt", "generated content\n")
    rc1, out1 = build(root, 1)
    assert rc1 == 0, out1
    # The user takes over b.txt.
    write(root, "plan.py", PLAN_V2)
    write(root, "sub.py", SUB_V2)
    write(root, "b.txt", USER_CONTENT)
    rc2, out2 = build(root, njob)
    with open(os.path.join(root, "b.txt")) as fh:
        content = fh.read()
    return rc2, out2, content


def main():
    with tempfile.TemporaryDirectory(prefix="hunt_I_4_") as base:
        rc_a, out_a, content_a = history(base, "j1", 1)
        rc_b, out_b, content_b = history(base, "j3", 3)
        print("---- second build with -j1 ----")
        print(out_a)
        print("---- second build with -j3 ----")
        print(out_b)
        print(f"-j1: rc={rc_a} b.txt={content_a!r}")
        print(f"-j3: rc={rc_b} b.txt={content_b!r}")
        started = "START │ cp inp.txt b.txt" in out_b
        problems = []
        if started:
            problems.append(
                "`cp inp.txt b.txt` was executed in the second build, "
                "although no plan defines this step anymore"
            )
        if content_b != USER_CONTENT:
            problems.append(
                "b.txt, declared static and edited by the user, was overwritten by that step "
                f"({USER_CONTENT!r} -> {content_b!r}), and the build still returned {rc_b}"
            )
        if (content_a, rc_a) != (content_b, rc_b):
            problems.append("the outcome depends on the number of jobs (-j1 versus -j3)")
        if problems:
            print("DEFECT (C11):")
            for problem in problems:
                print(" -", problem)
            return 1
        print("no defect observed")
        return 0


if __name__ == "__main__":
    sys.exit(main())
