#!/usr/bin/env python3
"""C06: a failed run adopts the user's overwrite of an output, and cleaning deletes it later.

Run as: cd /tmp/hunt_I && PYTHONPATH=/tmp/hunt_I /venv/bin/python _found/3/demo.py

Only the real `stepup build` command line is used, on an ordinary project in a temporary directory.
"""

import os
import sqlite3
import subprocess
import sys
import tempfile

ENV = {k: v for k, v in os.environ.items() if not k.startswith("STEPUP_")}
ENV["PATH"] = "/venv/bin:" + ENV.get("PATH", "")
ENV["PYTHONPATH"] = "/tmp/hunt_I"

PLAN_V1 = """\
#!/usr/bin/env python3
from stepup.core.api import run, static
static("gen.py", "params.txt")
run("./gen.py", inp="params.txt", out="table.txt")
"""

PLAN_V2 = """\
#!/usr/bin/env python3
from stepup.core.api import run, static
"""

GEN_PY = """\
#!/usr/bin/env python3
n = int(open("params.txt").read())
open("table.txt", "w").write("generated %d\\n" % n)
"""

USER_CONTENT = "hand-tuned by the user\n"


def write(root, name, text):
    path = os.path.join(root, name)
    with open(path, "w") as fh:
        fh.write(text)
    os.chmod(path, 0o755)


def build(root):
    cp = subprocess.run(
        ["stepup", "build", "-j1", "--no-progress"],
        cwd=root,
        env=ENV,
        capture_output=True,
        text=True,
        timeout=120,
        check=False,
    )
    return cp.returncode, cp.stdout + cp.stderr


def file_row(root, path):
    con = sqlite3.connect(os.path.join(root, ".stepup", "graph.db"))
    row = con.execute(
        "SELECT file.state, file.hash IS NOT NULL, node.detached FROM file "
        "JOIN node ON node.i = file.node WHERE node.label = ?",
        (path,),
    ).fetchone()
    con.close()
    return row


def main():
    with tempfile.TemporaryDirectory(prefix="hunt_I_3_") as root:
        # Build 1: StepUp produces table.txt = "generated 3".
        write(root, "plan.py", PLAN_V1)
        write(root, "gen.py", GEN_PY)
        write(root, "params.txt", "3\n")
        rc1, out1 = build(root)
        assert rc1 == 0, out1
        with open(os.path.join(root, "table.txt")) as fh:
            produced = fh.read()
        print("content produced by StepUp:", repr(produced))

        # The user overwrites the output by hand. Independently, an input is broken,
        # so the rerun of the step fails before it writes anything.
        write(root, "table.txt", USER_CONTENT)
        write(root, "params.txt", "oops\n")
        rc2, out2 = build(root)
        assert rc2 != 0, out2
        with open(os.path.join(root, "table.txt")) as fh:
            assert fh.read() == USER_CONTENT
        print("after the failed build, (state, has hash, detached) of table.txt:",
              file_row(root, "table.txt"))

        # The user drops the step and keeps the hand-made file.
        write(root, "plan.py", PLAN_V2)
        rc3, out3 = build(root)
        print("---- build 3 ----")
        print(out3)
        assert rc3 == 0, out3

        if not os.path.exists(os.path.join(root, "table.txt")):
            print(
                "DEFECT (C06): automatic cleaning deleted table.txt although its content "
                f"({USER_CONTENT!r}) was written by the user, after the only content that a step "
                f"ever produced for it ({produced!r}). The failed run never touched the file; "
                "its hash was adopted as if the step had produced it."
            )
            return 1
        print("no defect observed")
        return 0


if __name__ == "__main__":
    sys.exit(main())
