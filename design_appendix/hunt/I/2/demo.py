#!/usr/bin/env python3
"""Moving a step from a sub-plan into its parent plan makes every later build fail.

Run as: cd /tmp/hunt_I && PYTHONPATH=/tmp/hunt_I /venv/bin/python _found/2/demo.py

Only the real `stepup build` command line is used, on an ordinary project in a temporary directory.
"""

import os
import subprocess
import sys
import tempfile

ENV = {k: v for k, v in os.environ.items() if not k.startswith("STEPUP_")}
ENV["PATH"] = "/venv/bin:" + ENV.get("PATH", "")
ENV["PYTHONPATH"] = "/tmp/hunt_I"

PLAN_V1 = """\
#!/usr/bin/env python3
from stepup.core.api import plan, run, static
static("sub.py")
plan("./sub.py")
"""

SUB_V1 = """\
#!/usr/bin/env python3
from stepup.core.api import run
run("echo hello > a.txt", shell=True, out="a.txt")
"""

# Version 2: the very same step is now defined by the parent plan, after the plan() call.
PLAN_V2 = """\
#!/usr/bin/env python3
from stepup.core.api import plan, run, static
static("sub.py")
plan("./sub.py")
run("echo hello > a.txt", shell=True, out="a.txt")
"""

SUB_V2 = """\
#!/usr/bin/env python3
from stepup.core.api import run
"""


def write(root, name, text):
    path = os.path.join(root, name)
    with open(path, "w") as fh:
        fh.write(text)
    os.chmod(path, 0o755)


def build(root):
    cp = subprocess.run(
        ["stepup", "build", "-j1", "--no-progress"],
        cwd=root,
        env=ENV,
        capture_output=True,
        text=True,
        timeout=120,
        check=False,
    )
    return cp.returncode, cp.stdout + cp.stderr


def main():
    with tempfile.TemporaryDirectory(prefix="hunt_I_2_") as base:
        resumed = os.path.join(base, "resumed")
        fresh = os.path.join(base, "fresh")
        os.mkdir(resumed)
        os.mkdir(fresh)

        write(resumed, "plan.py", PLAN_V1)
        write(resumed, "sub.py", SUB_V1)
        rc1, out1 = build(resumed)
        assert rc1 == 0, out1

        write(resumed, "plan.py", PLAN_V2)
        write(resumed, "sub.py", SUB_V2)
        results = [build(resumed) for _ in range(3)]

        write(fresh, "plan.py", PLAN_V2)
        write(fresh, "sub.py", SUB_V2)
        rcf, outf = build(fresh)
        assert rcf == 0, outf

        print("---- first build of version 2 in the resumed project ----")
        print(results[0][1])
        print("return codes of three consecutive builds of version 2 (resumed):",
              [rc for rc, _ in results])
        print("return code of the same project built from scratch:", rcf)
        if all(rc != 0 for rc, _ in results) and "is defined by both" in results[-1][1]:
            print(
                "DEFECT: a valid plan (it builds from scratch) fails on every build of the resumed "
                "project, with a collision between the new definition and the stale definition "
                "that a recycled, still PENDING sub-plan brought back. "
                "No non-optional step is ever built and no cleanup ever runs again."
            )
            return 1
        print("no defect observed")
        return 0


if __name__ == "__main__":
    sys.exit(main())
