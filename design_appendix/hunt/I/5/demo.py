#!/usr/bin/env python3
"""C07 (crash point): the graph forgets orphaned outputs before they are removed from disk.

Run as: cd /tmp/hunt_I && PYTHONPATH=/tmp/hunt_I /venv/bin/python _found/5/demo.py

Builds are real `stepup build` runs. The crash is placed between two consecutive statements of
`Builder.finalize` (builder.py l. 226 and l. 227): the cleanup pass is executed in-process with
the same public calls, in the same order, and stopped where a `kill -9`, an OOM kill or a power
loss would stop it, i.e. after `Workflow.delete_detached()` has committed and before
`remove_deletable_files()` has touched the disk.
"""

import asyncio
import os
import sqlite3
import subprocess
import sys
import tempfile

sys.path.insert(0, "/tmp/hunt_I")

from stepup.core.finalize import revert_optional_steps  # noqa: E402
from stepup.core.reporter import ReporterClient  # noqa: E402
from stepup.core.sqlite3 import DBSession  # noqa: E402
from stepup.core.workflow import Workflow  # noqa: E402

ENV = {k: v for k, v in os.environ.items() if not k.startswith("STEPUP_")}
ENV["PATH"] = "/venv/bin:" + ENV.get("PATH", "")
ENV["PYTHONPATH"] = "/tmp/hunt_I"

HEAD = "#!/usr/bin/env python3\nfrom stepup.core.api import run, static\n"
PLAN_V1 = HEAD + (
    'run("echo old > old.txt", shell=True, out="old.txt")\n'
    'run("echo opt > opt.txt", shell=True, out="opt.txt", optional=True)\n'
    'run("cp opt.txt use.txt", inp="opt.txt", out="use.txt")\n'
)
# Version 2 drops the producer of old.txt and the consumer of the optional step.
PLAN_V2 = HEAD + 'run("echo opt > opt.txt", shell=True, out="opt.txt", optional=True)\n'


def write(root, name, text):
    path = os.path.join(root, name)
    with open(path, "w") as fh:
        fh.write(text)
    os.chmod(path, 0o755)


def stepup(root, *args):
    cp = subprocess.run(
        ["stepup", *args], cwd=root, env=ENV, capture_output=True, text=True, timeout=120,
        check=False,
    )
    return cp.returncode, cp.stdout + cp.stderr


async def cleanup_until_crash(root):
    """The first two thirds of the cleanup pass of `Builder.finalize`, then nothing."""
    cwd = os.getcwd()
    os.chdir(root)
    try:
        with DBSession.open(".stepup/graph.db") as db:
            workflow = Workflow(db, dir_queue=None)
            await workflow.initialize()
            reporter = ReporterClient()
            await revert_optional_steps(workflow, reporter)  # builder.py l. 224
            async with db:  # builder.py l. 225-226
                workflow.delete_detached()
            queued = sorted(workflow.to_be_deleted)
            # <- the director dies here; remove_deletable_files (l. 227) never runs.
            return queued
    finally:
        os.chdir(cwd)


def nodes(root):
    con = sqlite3.connect(os.path.join(root, ".stepup", "graph.db"))
    rows = con.execute(
        "SELECT label, state, detached FROM node JOIN file ON file.node = node.i "
        "WHERE label IN ('old.txt', 'opt.txt', 'use.txt')"
    ).fetchall()
    con.close()
    return rows


def main():
    with tempfile.TemporaryDirectory(prefix="hunt_I_5_") as root:
        write(root, "plan.py", PLAN_V1)
        rc, out = stepup(root, "build", "-j1", "--no-progress")
        assert rc == 0, out
        write(root, "plan.py", PLAN_V2)
        # Bring the database to the state that Builder.finalize sees right before the cleanup
        # pass (plan rerun, removed steps detached). --no-clean only skips that pass.
        rc, out = stepup(root, "build", "-j1", "--no-progress", "--no-clean")
        assert rc == 0, out
        queued = asyncio.run(cleanup_until_crash(root))
        print("queued for removal when the director died:", queued)
        print("file rows left in the graph after the crash:", nodes(root))

        # The user restarts. Two successful, unrestricted builds with cleaning, and stepup clean.
        rc1, out1 = stepup(root, "build", "-j1", "--no-progress")
        rc2, out2 = stepup(root, "build", "-j1", "--no-progress")
        rc3, out3 = stepup(root, "clean", "--commit", "--all")
        print("---- first build after the crash ----")
        print(out1)
        print("---- stepup clean --commit --all ----")
        print(out3)
        assert rc1 == 0 and rc2 == 0
        left = sorted(n for n in os.listdir(root) if n.endswith(".txt"))
        print("output files on disk after two more successful builds and a clean:", left)
        if left:
            print(
                "DEFECT (C07, crash point): these unmodified outputs of removed or reverted steps "
                "stay on disk for good. The graph no longer knows them, so neither automatic "
                "cleaning nor `stepup clean` can ever remove them."
            )
            return 1
        print("no defect observed")
        return 0


if __name__ == "__main__":
    sys.exit(main())
