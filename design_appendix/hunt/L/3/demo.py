#!/usr/bin/env python3
"""C16: garbage after a valid request leaves a zombie hash job that blocks other steps forever.

Run as: cd /tmp/hunt_L && PYTHONPATH=/tmp/hunt_L /venv/bin/python _found/3/demo.py

A real `stepup build -j 3` runs in a temporary directory.
`./evil.py` is a step whose connection to the director carries a complete, valid
`amend_step` request followed by 16 bytes that are not an RPC header.
`./good.py` is an ordinary step that calls `amend(inp="data/big.bin")` afterwards.
On the unchanged code that call never returns and the build never ends.
Exit code 1 means the defect was observed.
"""

import os
import shutil
import signal
import stat
import subprocess
import sys
import tempfile
import time

PLAN = """\
#!/usr/bin/env python3
from stepup.core.api import static, step

static("data/", "evil.py", "good.py")
step("./evil.py", inp="evil.py")
step("./good.py", inp="good.py", out="good.txt")
"""

# A peer that sends one well-formed request and then something else.
# The frame is built with the helpers of rpc.py, so the request itself is what
# `amend(inp="data/big.bin")` would send.
EVIL = """\
#!/usr/bin/env python3
import os, socket, time
from stepup.core.rpc import RPCCall, _encode_body, _encode_message

job_i = int(os.environ["STEPUP_JOB_I"])
call = RPCCall("amend_step", (job_i, ["data/big.bin"], [], [], []))
sock = socket.socket(socket.AF_UNIX)
sock.connect(os.environ["STEPUP_DIRECTOR_SOCKET"])
sock.sendall(_encode_message(1, _encode_body(call)) + b"\\xff" * 16)
time.sleep(1.0)
sock.close()
with open("evil_done.txt", "w") as fh:
    fh.write("done")
"""

GOOD = """\
#!/usr/bin/env python3
import time
from path import Path
from stepup.core.api import amend

while not Path("evil_done.txt").is_file():
    time.sleep(0.1)
with open("good_progress.txt", "a") as fh:
    fh.write("calling amend\\n")
amend(inp="data/big.bin")
with open("good_progress.txt", "a") as fh:
    fh.write("amend returned\\n")
with open("good.txt", "w") as fh:
    fh.write("ok")
"""

WAIT = 40.0
ABORT_WAIT = 20.0


def main() -> int:
    os.makedirs("/tmp/hunt_L/_scratch", exist_ok=True)
    workdir = tempfile.mkdtemp(prefix="found3-", dir="/tmp/hunt_L/_scratch")
    proc = None
    try:
        for name, text in ("plan.py", PLAN), ("evil.py", EVIL), ("good.py", GOOD):
            path = os.path.join(workdir, name)
            with open(path, "w") as fh:
                fh.write(text)
            os.chmod(path, os.stat(path).st_mode | stat.S_IXUSR)
        os.mkdir(os.path.join(workdir, "data"))
        with open(os.path.join(workdir, "data", "big.bin"), "wb") as fh:
            fh.write(os.urandom(1 << 20) * 64)  # 64 MiB, so the hash takes a moment
        env = dict(os.environ)
        env["PATH"] = "/venv/bin:" + env.get("PATH", "")
        env["PYTHONPATH"] = "/tmp/hunt_L"
        for name in list(env):
            if name.startswith("STEPUP_"):
                del env[name]
        out_path = os.path.join(workdir, "stdout.txt")
        with open(out_path, "w") as out:
            proc = subprocess.Popen(
                ["stepup", "build", "-j", "3"],
                cwd=workdir,
                env=env,
                stdin=subprocess.DEVNULL,
                stdout=out,
                stderr=subprocess.STDOUT,
                start_new_session=True,
            )
        deadline = time.monotonic() + WAIT
        while proc.poll() is None and time.monotonic() < deadline:
            time.sleep(0.2)
        hung = proc.poll() is None
        progress_path = os.path.join(workdir, "good_progress.txt")
        progress = open(progress_path).read() if os.path.exists(progress_path) else ""
        print("----- output of `stepup build -j 3` -----")
        print(open(out_path).read().rstrip())
        print("----- good_progress.txt (written by ./good.py) -----")
        print(progress.rstrip())
        log_path = os.path.join(workdir, ".stepup", "director.log")
        if os.path.exists(log_path):
            lines = [line for line in open(log_path).read().splitlines() if "RPC" in line]
            print("----- director.log lines mentioning RPC -----")
            print("\n".join(lines[-8:]))
        print("-----")
        if hung and "calling amend" in progress and "amend returned" not in progress:
            # Extra evidence: ask for an orderly abort, as Ctrl-C in the terminal would.
            os.killpg(proc.pid, signal.SIGINT)
            abort_deadline = time.monotonic() + ABORT_WAIT
            while proc.poll() is None and time.monotonic() < abort_deadline:
                time.sleep(0.2)
            print("----- output after SIGINT to `stepup build` -----")
            print(open(out_path).read().rstrip()[-1500:])
            print("-----")
            if proc.poll() is None:
                print(
                    f"After SIGINT the steps were interrupted, but {ABORT_WAIT:.0f} s later "
                    "`stepup build` is still alive:\nthe stuck amend_step handler keeps its "
                    "connection open, which the RPC server waits for at shutdown."
                )
            elif "Director killed by SIGKILL" in open(out_path).read():
                print(
                    "After SIGINT the steps were killed and the build phase was wrapped up, but "
                    "the director process never exited:\nthe stuck amend_step handler keeps its "
                    "connection open, which the RPC server waits for at shutdown.\n"
                    "The terminal user interface had to kill the director with SIGKILL "
                    f"(exit code {proc.returncode})."
                )
            else:
                print(f"After SIGINT `stepup build` ended with exit code {proc.returncode}.")
            print(
                f"DEFECT (C16): {WAIT:.0f} s after the start, ./good.py is still blocked in "
                "amend(inp='data/big.bin') and the build has not ended.\n"
                "The malformed bytes on the connection of ./evil.py cancelled its amend_step "
                "handler in the middle of hashing data/big.bin;\nthe hash job was left in "
                "HashQueue.in_flight with a future that nobody resolves, so every later request "
                "for that path waits forever."
            )
            return 1
        if hung:
            print("The build did not end, but not in the way this demo expects.")
            return 2
        print(f"The build ended with exit code {proc.returncode}: ./good.py was not blocked.")
        return 0
    finally:
        if proc is not None and proc.poll() is None:
            # Only the process group that this demo started.
            try:
                os.killpg(proc.pid, signal.SIGKILL)
            except ProcessLookupError:
                pass
            proc.wait()
        time.sleep(1.0)  # the steps notice that the director is gone and exit
        shutil.rmtree(workdir, ignore_errors=True)


if __name__ == "__main__":
    sys.exit(main())
