#!/usr/bin/env python3
"""C16 (latent): cancelling one caller while the async RPC client connects poisons the client.

Run as: cd /tmp/hunt_L && PYTHONPATH=/tmp/hunt_L /venv/bin/python _found/2/demo.py

A real `SocketRPCServer` on a Unix socket and one `SocketAsyncRPCClient`, public API only.
Two calls are made concurrently on the fresh client, so both wait for the shared connect task.
The first caller is cancelled (what `asyncio.timeout` does) before the connection is open.
Exit code 1 means the defect was observed.
"""

import asyncio
import os
import shutil
import sys
import tempfile

from stepup.core.rpc import SocketAsyncRPCClient, SocketRPCServer, allow_rpc


class Handler:
    @allow_rpc
    def echo(self, value):
        return value


async def outcome(awaitable):
    try:
        return repr(await awaitable)
    except BaseException as exc:  # noqa: BLE001
        return f"raised {type(exc).__name__}({exc})"


async def main() -> int:
    os.makedirs("/tmp/hunt_L/_scratch", exist_ok=True)
    tmpdir = tempfile.mkdtemp(prefix="found2-", dir="/tmp/hunt_L/_scratch")
    try:
        path = os.path.join(tmpdir, "server")
        stop_event = asyncio.Event()
        server = asyncio.create_task(SocketRPCServer(Handler(), path).serve(stop_event))
        while not os.path.exists(path):
            await asyncio.sleep(0.01)

        client = SocketAsyncRPCClient(path)
        first = asyncio.create_task(client.call.echo("first"))
        second = asyncio.create_task(client.call.echo("second"))
        await asyncio.sleep(0)  # both callers now await the shared connect task
        first.cancel()  # e.g. an `asyncio.timeout` around the first call expires
        res_first = await outcome(first)
        res_second = await outcome(second)
        res_later = await outcome(client.call.echo("later"))
        res_close = await outcome(client.close())
        print("first  (cancelled on purpose):", res_first)
        print("second (nobody cancelled it) :", res_second)
        print("later call on the same client:", res_later)
        print("close()                      :", res_close)

        stop_event.set()
        await server
        bad = [r for r in (res_second, res_later) if "CancelledError" in r]
        if bad:
            print(
                "DEFECT (C16): the cancellation of one caller travelled into the shared connect "
                "task.\nA concurrent call that nobody cancelled and every later call raise "
                "CancelledError,\nalthough the server is up and the calls were never sent."
            )
            return 1
        print("The other calls were answered.")
        return 0
    finally:
        shutil.rmtree(tmpdir, ignore_errors=True)


if __name__ == "__main__":
    sys.exit(asyncio.run(main()))
