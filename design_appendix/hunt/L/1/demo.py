#!/usr/bin/env python3
"""C12: a step that is re-declared while its command is still running is dispatched a second time.

Run as: cd /tmp/hunt_L && PYTHONPATH=/tmp/hunt_L /venv/bin/python _found/1/demo.py

A real `stepup build -j 4 --resources gpu:1` is started in a temporary directory.
Only plan.py, two shell scripts and the public API (static, step, amend) are used.
The step `./work.sh` claims `gpu: 1`, and only one unit of `gpu` is available,
yet two `./work.sh` commands run at the same time.
Exit code 1 means the defect was observed.
"""

import os
import shutil
import stat
import subprocess
import sys
import tempfile

PLAN = """\
#!/usr/bin/env python3
import os
from stepup.core.api import amend, static, step

static("gen.sh", "work.sh", "extra.txt")
step("./gen.sh", inp="gen.sh", out="list.txt")
# Read first, amend afterwards: the docstring of amend() says that this order is safe,
# because a missing or unfresh file defers the step instead of failing it.
inputs = ["work.sh"]
if os.path.exists("list.txt"):
    with open("list.txt") as fh:
        inputs += fh.read().split()
step("./work.sh", inp=inputs, out="a.txt", resources={"gpu": 1})
amend(inp="list.txt")
"""

# gen.sh only writes list.txt once work.sh has started,
# so the first plan.py run is certainly deferred while work.sh is running.
GEN = """\
#!/usr/bin/env bash
for i in $(seq 300); do
    grep -q START work.log 2> /dev/null && break
    sleep 0.1
done
echo extra.txt > list.txt
"""

# work.sh runs until it sees a second instance of itself, or for 15 seconds at most.
WORK = """\
#!/usr/bin/env bash
echo "START job=$STEPUP_JOB_I $(date +%s.%N)" >> work.log
for i in $(seq 150); do
    if [ "$(grep -c START work.log)" -ge 2 ]; then
        echo "OVERLAP seen by job=$STEPUP_JOB_I $(date +%s.%N)" >> work.log
        sleep 0.5
        break
    fi
    sleep 0.1
done
echo done > a.txt
echo "END   job=$STEPUP_JOB_I $(date +%s.%N)" >> work.log
"""


def main() -> int:
    os.makedirs("/tmp/hunt_L/_scratch", exist_ok=True)
    workdir = tempfile.mkdtemp(prefix="found1-", dir="/tmp/hunt_L/_scratch")
    try:
        for name, text in ("plan.py", PLAN), ("gen.sh", GEN), ("work.sh", WORK):
            path = os.path.join(workdir, name)
            with open(path, "w") as fh:
                fh.write(text)
            os.chmod(path, os.stat(path).st_mode | stat.S_IXUSR)
        with open(os.path.join(workdir, "extra.txt"), "w") as fh:
            fh.write("hello\n")
        env = dict(os.environ)
        env["PATH"] = "/venv/bin:" + env.get("PATH", "")
        env["PYTHONPATH"] = "/tmp/hunt_L"
        for name in list(env):
            if name.startswith("STEPUP_"):
                del env[name]
        proc = subprocess.run(
            ["stepup", "build", "-j", "4", "--resources", "gpu:1"],
            cwd=workdir,
            env=env,
            stdin=subprocess.DEVNULL,
            stdout=subprocess.PIPE,
            stderr=subprocess.STDOUT,
            text=True,
            timeout=180,
            check=False,
        )
        print("----- output of `stepup build -j 4 --resources gpu:1` -----")
        print(proc.stdout.rstrip())
        print(f"----- exit code {proc.returncode} -----")
        log_path = os.path.join(workdir, "work.log")
        log = open(log_path).read() if os.path.exists(log_path) else ""
        print("----- work.log (written by ./work.sh, which claims gpu:1) -----")
        print(log.rstrip())
        print("-----")
        nstart = sum(line.startswith("START") for line in log.splitlines())
        if "OVERLAP" in log:
            print(
                "DEFECT (C12): two ./work.sh commands were running at the same time.\n"
                "Each of them claims 1 unit of the resource `gpu`, of which only 1 is available,\n"
                "and the same step ran twice concurrently, writing the same output a.txt.\n"
                f"(./work.sh was started {nstart} times in a single build.)"
            )
            return 1
        print("No overlap observed: the second ./work.sh did not start while the first one ran.")
        return 0
    finally:
        shutil.rmtree(workdir, ignore_errors=True)


if __name__ == "__main__":
    sys.exit(main())
