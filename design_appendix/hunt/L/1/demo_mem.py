#!/usr/bin/env python3
"""Deterministic in-memory companion of demo.py (same history, no processes, no timing).

Run as: cd /tmp/hunt_L && PYTHONPATH=/tmp/hunt_L /venv/bin/python _found/1/demo_mem.py

Only public methods are used, in the order in which the director calls them in demo.py:
`Scheduler.pop_next_job` (job loop), `Workflow.define_step` / `Workflow.amend_step`
(RPC handlers `define_step` / `amend_step`), `Step.mark_completed` and
`Workflow.update_file_hashes` (`Executor.execute_job`), `Scheduler.record_job_completed`
(`Builder.handle_done_tasks`).
Exit code 1 means the defect was observed.
"""

import asyncio
import sys

sys.path.insert(0, "/tmp/hunt_L/tests")

from conftest import amend_step, declare_static, fake_hash

from stepup.core.enums import HashUpdateCause, Need, StepState
from stepup.core.hash import StepHash
from stepup.core.scheduler import Scheduler
from stepup.core.sqlite3 import DBSession
from stepup.core.workflow import Workflow


async def pop_all(sched):
    jobs = []
    while (job := await sched.pop_next_job()) is not None:
        print(f"  dispatched job {job.job_i}: {job.name}")
        jobs.append(job)
    return jobs


async def main() -> int:
    with DBSession.open(":memory:") as db:
        wf = Workflow(db, dir_queue=None)
        await wf.initialize()
        sched = Scheduler(wf, db=db)
        await sched.initialize("gpu:1")
        async with db:
            declare_static(wf, wf.root, ["plan.py"])
            wf.define_step(wf.root, "./plan.py", inp_paths=["plan.py"], need=Need.PLAN, _safe=True)

        print("first run of ./plan.py")
        (job_plan1,) = await pop_all(sched)
        plan = job_plan1.step
        async with db:
            wf.define_step(plan, "./gen.sh", out_paths=["list.txt"])
        async with db:
            wf.define_step(plan, "./work.sh", out_paths=["a.txt"], resources={"gpu": 1})
        jobs = await pop_all(sched)
        job_gen = next(job for job in jobs if job.step.label == "./gen.sh")
        job_work1 = next(job for job in jobs if job.step.label == "./work.sh")
        # plan.py: amend(inp="list.txt") -> not built yet -> the plan is deferred.
        async with db:
            unavailable, _, _ = amend_step(wf, plan, inp_paths=["list.txt"])
            assert unavailable
        async with db:
            plan.mark_completed(None, True)
        sched.record_job_completed(job_plan1)

        print("./gen.sh completes, ./work.sh (job %d) keeps running" % job_work1.job_i)
        async with db:
            wf.update_file_hashes(
                {"list.txt": fake_hash("list.txt")}, cause=HashUpdateCause.SUCCEEDED
            )
            job_gen.step.mark_completed(StepHash(b"i" * 32, None, b"o" * 32, None), False)
        sched.record_job_completed(job_gen)

        print("second run of ./plan.py, which now declares ./work.sh with one more input")
        (job_plan2,) = await pop_all(sched)
        async with db:
            wf.define_step(plan, "./gen.sh", out_paths=["list.txt"])
        async with db:
            wf.define_step(
                plan,
                "./work.sh",
                inp_paths=["list.txt"],
                out_paths=["a.txt"],
                resources={"gpu": 1},
            )
        async with db:
            state = job_work1.step.get_state()
        print(
            f"  job {job_work1.job_i} of ./work.sh is still in flight "
            f"({job_work1.job_i in sched.jobs}), but the state of the step is now {state.name}"
        )
        jobs = await pop_all(sched)
        again = [job for job in jobs if job.step.label == "./work.sh" and job.runs_command]
        if again:
            in_flight = [
                f"job {job_i}" for job_i, step in sched.jobs.items() if step.label == "./work.sh"
            ]
            print(
                "DEFECT (C12): ./work.sh claims gpu:1 and 1 unit of gpu is available, "
                f"yet these jobs run its command at the same time: {', '.join(in_flight)}"
            )
            return 1
        assert state == StepState.RUNNING
        print("./work.sh was not dispatched a second time")
        return 0


if __name__ == "__main__":
    sys.exit(asyncio.run(main()))
