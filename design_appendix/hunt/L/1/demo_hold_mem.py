#!/usr/bin/env python3
"""Hold clause of C12, broken by the same reset as in demo.py (in-memory, deterministic).

Run as: cd /tmp/hunt_L && PYTHONPATH=/tmp/hunt_L /venv/bin/python _found/1/demo_hold_mem.py

`./sub.py` is a nested plan that is inside a `with hold():` block
when its creator `./plan.py` is deferred, reruns and declares `./sub.py` with one more input.
Public methods only, in the order of a real build: `Scheduler.pop_next_job` (job loop),
`Workflow.define_step`, `Workflow.amend_step`, `Step.hold`, `Step.release` (the RPC handlers
`define_step`, `amend_step`, `hold_dispatch`, `release_dispatch` after `get_job_step`),
`Step.mark_completed`, `Workflow.update_file_hashes`, `Scheduler.record_job_completed`.
Exit code 1 means the defect was observed.
"""

import asyncio
import sys

sys.path.insert(0, "/tmp/hunt_L/tests")

from conftest import amend_step, declare_static, fake_hash

from stepup.core.enums import HashUpdateCause, Need
from stepup.core.exceptions import GraphError
from stepup.core.hash import StepHash
from stepup.core.scheduler import Scheduler
from stepup.core.sqlite3 import DBSession
from stepup.core.workflow import Workflow


async def pop_all(sched):
    jobs = []
    while (job := await sched.pop_next_job()) is not None:
        print(f"  dispatched job {job.job_i}: {job.name}")
        jobs.append(job)
    return jobs


async def main() -> int:
    with DBSession.open(":memory:") as db:
        wf = Workflow(db, dir_queue=None)
        await wf.initialize()
        sched = Scheduler(wf, db=db)
        await sched.initialize(None)
        async with db:
            declare_static(wf, wf.root, ["plan.py", "sub.py"])
            wf.define_step(wf.root, "./plan.py", inp_paths=["plan.py"], need=Need.PLAN, _safe=True)

        print("first run of ./plan.py")
        (job_plan1,) = await pop_all(sched)
        plan = job_plan1.step
        async with db:
            wf.define_step(plan, "./gen.sh", out_paths=["list.txt"])
        async with db:
            wf.define_step(plan, "./sub.py", inp_paths=["sub.py"], need=Need.PLAN)
        jobs = await pop_all(sched)
        job_gen = next(job for job in jobs if job.step.label == "./gen.sh")
        job_sub1 = next(job for job in jobs if job.step.label == "./sub.py")

        print(f"./sub.py (job {job_sub1.job_i}) enters `with hold():` and declares ./c1.sh")
        async with db:
            sched.get_job_step(job_sub1.job_i).hold()
        async with db:
            wf.define_step(sched.get_job_step(job_sub1.job_i), "./c1.sh")
        assert await pop_all(sched) == [], "c1.sh must be held back"
        print("  nothing dispatched: ./c1.sh is held back, as it should")

        print("./plan.py is deferred on list.txt, ./gen.sh builds it, ./plan.py runs again")
        async with db:
            amend_step(wf, plan, inp_paths=["list.txt"])
        async with db:
            plan.mark_completed(None, True)
        sched.record_job_completed(job_plan1)
        async with db:
            wf.update_file_hashes(
                {"list.txt": fake_hash("list.txt")}, cause=HashUpdateCause.SUCCEEDED
            )
            job_gen.step.mark_completed(StepHash(b"i" * 32, None, b"o" * 32, None), False)
        sched.record_job_completed(job_gen)
        await pop_all(sched)
        async with db:
            wf.define_step(plan, "./gen.sh", out_paths=["list.txt"])
        async with db:
            wf.define_step(plan, "./sub.py", inp_paths=["sub.py", "list.txt"], need=Need.PLAN)
        async with db:
            sub = sched.get_job_step(job_sub1.job_i)
            print(
                f"  ./sub.py re-declared: state {sub.get_state().name}, "
                f"is_holding {sub.is_holding()}, job {job_sub1.job_i} still in flight"
            )
        await pop_all(sched)

        print(f"job {job_sub1.job_i}, still inside its hold block, declares ./c2.sh")
        async with db:
            wf.define_step(sched.get_job_step(job_sub1.job_i), "./c2.sh")
        jobs = await pop_all(sched)
        early = [job for job in jobs if job.step.label == "./c2.sh" and job.runs_command]
        try:
            async with db:
                sched.get_job_step(job_sub1.job_i).release()
            print("  release() of the old command accepted")
        except GraphError as exc:
            print(f"  release() of the old command is rejected: {exc}")
        if early:
            print(
                "DEFECT (C12, hold): ./c2.sh was declared inside a hold block and its command was "
                f"dispatched (job {early[0].job_i}) before that block was released."
            )
            return 1
        print("./c2.sh stayed held back")
        return 0


if __name__ == "__main__":
    sys.exit(asyncio.run(main()))
