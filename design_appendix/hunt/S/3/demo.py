#!/usr/bin/env python3
"""An optional step that is only needed by a step created by a reverted optional step survives.

Run as: cd /tmp/hunt_S && PYTHONPATH=/tmp/hunt_S /venv/bin/python _found/3/demo.py

Only real `stepup build` invocations are used (no internals are called).

History
-------
plan.py defines
    S = run("./gen.py", out=["gen.txt"], optional=True)      # gen.py also defines step D
    P = run("echo p > o.txt", out=["o.txt"], optional=True)
    C = run("cat gen.txt > final.txt", ...)                   # only when use_final.txt says "yes"
gen.py (step S) defines
    D = run("cp o.txt d.txt", inp=["o.txt"], out=["d.txt"])   # default need, makes P needed

Build 1 (use_final = yes): C needs S, S creates D, D needs P: everything is built.
Build 2 (use_final = no):  C is gone, so S is not needed any more. `revert_optional_steps` resets
    S, which (since 135ec38) detaches D; `delete_detached` removes D and d.txt.
    P is now needed by nobody, but it was not in the `optional_step` table, which was filled before
    S was reset, from an `_implied_need` that still counted D. o.txt stays on disk and P stays
    SUCCEEDED in the graph after this successful, unrestricted build with cleaning enabled.
Build 3 (nothing changed): only now P is reverted and o.txt removed.

A build from scratch of the final project never creates o.txt.
"""

import os
import shutil
import subprocess
import sys
import tempfile
import textwrap

ROOT = "/tmp/hunt_S"

PLAN = """\
#!/usr/bin/env python3
from stepup.core.api import amend, run, static

static("gen.py", "use_final.txt")
amend(inp=["use_final.txt"])
run("./gen.py", inp=["gen.py"], out=["gen.txt"], optional=True)
run("echo p > o.txt", out=["o.txt"], optional=True, shell=True)
if open("use_final.txt").read().strip() == "yes":
    run("cat gen.txt > final.txt", inp=["gen.txt"], out=["final.txt"], shell=True)
"""

GEN = """\
#!/usr/bin/env python3
from stepup.core.api import run

run("cp o.txt d.txt", inp=["o.txt"], out=["d.txt"])
open("gen.txt", "w").write("gen\\n")
"""


def build(workdir):
    env = dict(os.environ)
    env["PATH"] = "/venv/bin:" + env.get("PATH", "")
    env["PYTHONPATH"] = ROOT
    env.pop("STEPUP_ROOT", None)
    proc = subprocess.run(
        ["stepup", "build", "-j", "2"],
        cwd=workdir,
        env=env,
        capture_output=True,
        text=True,
        timeout=120,
        check=False,
    )
    return proc.returncode, proc.stdout + proc.stderr


def listing(workdir):
    return sorted(name for name in os.listdir(workdir) if name != ".stepup")


def new_project(use_final):
    workdir = tempfile.mkdtemp(prefix="hunt_S_demo3_", dir=os.path.join(ROOT, "_scratch"))
    for name, text in (("plan.py", PLAN), ("gen.py", GEN)):
        with open(os.path.join(workdir, name), "w") as fh:
            fh.write(text)
        os.chmod(os.path.join(workdir, name), 0o755)
    with open(os.path.join(workdir, "use_final.txt"), "w") as fh:
        fh.write(use_final + "\n")
    return workdir


def main():
    os.makedirs(os.path.join(ROOT, "_scratch"), exist_ok=True)
    workdir = new_project("yes")
    scratch = new_project("no")
    try:
        rc1, out1 = build(workdir)
        files1 = listing(workdir)
        with open(os.path.join(workdir, "use_final.txt"), "w") as fh:
            fh.write("no\n")
        rc2, out2 = build(workdir)
        files2 = listing(workdir)
        rc3, out3 = build(workdir)
        files3 = listing(workdir)
        rcs, _outs = build(scratch)
        files_scratch = listing(scratch)
    finally:
        shutil.rmtree(workdir, ignore_errors=True)
        shutil.rmtree(scratch, ignore_errors=True)

    print(f"build 1 (C defined)     rc={rc1} files={files1}")
    print(f"build 2 (C removed)     rc={rc2} files={files2}")
    print(f"build 3 (no change)     rc={rc3} files={files3}")
    print(f"from scratch (final)    rc={rcs} files={files_scratch}")
    if rc1 != 0 or "o.txt" not in files1 or "d.txt" not in files1:
        print(out1)
        raise RuntimeError("Build 1 did not build the full chain, the demo needs another look.")
    if rc2 == 0 and files2 != files_scratch:
        print()
        print("DEFECT: build 2 succeeded with cleaning enabled and left behind:")
        print("   ", sorted(set(files2) - set(files_scratch)))
        print("which no step of the final workflow needs (a build from scratch never makes it).")
        if files3 == files_scratch:
            print("A third build, in which nothing changed at all, removes it after all:")
            print(textwrap.indent("\n".join(out3.splitlines()[-8:]), "    "))
        print()
        print("Output of build 2:")
        print(textwrap.indent(out2, "    "))
        sys.exit(1)
    print("No problem observed.")
    sys.exit(0)


if __name__ == "__main__":
    main()
