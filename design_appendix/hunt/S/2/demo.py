#!/usr/bin/env python3
"""A running step that is declared again with other inputs is dispatched a second time.

Run as: cd /tmp/hunt_S && PYTHONPATH=/tmp/hunt_S /venv/bin/python _found/2/demo.py

Only a real `stepup build -j 4` is used (no internals are called).

History (one build from scratch)
--------------------------------
* `driver.py` declares `./work.py` (out: out.txt), then amends `gate1.txt`, which is not built yet,
  so the driver is DEFERRED. `./work.py` was dispatched while the driver ran and keeps running.
* `gate1.txt` is built, the driver is popped again: `reset_for_rerun` detaches the running
  `./work.py`. The second run of the driver declares `./work.py` again, now with one more input
  (`extra.txt`). This is the pattern of tests/examples/recycle_running, except that the
  declaration differs, so the step is not fully recycled but re-created (`Trellis.create`).
* `Step.initialize_row` gives the re-created step a fresh row in state PENDING while its command is
  still running. The next pop dispatches `./work.py` a second time.

Observed
--------
* two commands of the same step run at the same time and write the same output file;
* when the first one ends the step is recorded SUCCEEDED and out.txt BUILT, so the consumer
  `./use.py` starts while the second command of its producer is still writing out.txt;
* when the second one ends with another hash for out.txt, `update_file_hashes` raises
  ConsistencyError(cause=SUCCEEDED state=BUILT) and the director dies (return code 1).
"""

import os
import re
import shutil
import subprocess
import sys
import tempfile
import textwrap

ROOT = "/tmp/hunt_S"

FILES = {
    "plan.py": """\
#!/usr/bin/env python3
from stepup.core.api import run, static

static("driver.py", "work.py", "gate.py", "use.py", "extra.txt")
run("./driver.py", inp=["driver.py"])
run("./gate.py", inp=["gate.py"], out=["gate1.txt"])
run("./use.py", inp=["use.py", "out.txt"], out=["copy.txt"])
""",
    "driver.py": """\
#!/usr/bin/env python3
from path import Path
from stepup.core.api import amend, run

# Which inputs the work step needs is only known once gate1.txt is there.
second = Path("gate1.txt").exists()
run("./work.py", inp=["work.py"] + (["extra.txt"] if second else []), out=["out.txt"])
with open("go1.txt", "w") as f:
    f.write("go")
amend(inp="gate1.txt")
""",
    "gate.py": """\
#!/usr/bin/env python3
import time
from path import Path

while not Path("go1.txt").exists():
    time.sleep(0.1)
time.sleep(1.0)
with open("gate1.txt", "w") as f:
    f.write("done")
""",
    "work.py": """\
#!/usr/bin/env python3
import os, time

def log(what):
    with open("runs.log", "a") as f:
        f.write(f"{what} pid={os.getpid()} t={time.time():.3f}\\n")

log("work-start")
with open("out.txt", "w") as f:
    for k in range(6):
        f.write(f"line {k} of pid {os.getpid()}\\n")
        f.flush()
        time.sleep(0.8)
log("work-end")
""",
    "use.py": """\
#!/usr/bin/env python3
import os, time

with open("runs.log", "a") as f:
    f.write(f"use-start pid={os.getpid()} t={time.time():.3f}\\n")
data = open("out.txt").read()
time.sleep(float(os.environ["USE_SLEEP"]))
open("copy.txt", "w").write(data)
""",
    "extra.txt": "extra\n",
}


def scenario(use_sleep):
    print(f"=== ./use.py takes {use_sleep} s ===")
    os.makedirs(os.path.join(ROOT, "_scratch"), exist_ok=True)
    workdir = tempfile.mkdtemp(prefix="hunt_S_demo2_", dir=os.path.join(ROOT, "_scratch"))
    try:
        for name, text in FILES.items():
            path = os.path.join(workdir, name)
            with open(path, "w") as fh:
                fh.write(text)
            if name.endswith(".py"):
                os.chmod(path, 0o755)
        env = dict(os.environ)
        env["PATH"] = "/venv/bin:" + env.get("PATH", "")
        env["PYTHONPATH"] = ROOT
        env.pop("STEPUP_ROOT", None)
        env["USE_SLEEP"] = use_sleep
        proc = subprocess.run(
            ["stepup", "build", "-j", "4"],
            cwd=workdir,
            env=env,
            capture_output=True,
            text=True,
            timeout=180,
            check=False,
        )
        output = proc.stdout + proc.stderr
        with open(os.path.join(workdir, "runs.log")) as fh:
            log_lines = fh.read().splitlines()
    finally:
        shutil.rmtree(workdir, ignore_errors=True)

    events = []
    for line in log_lines:
        match = re.fullmatch(r"(\S+) pid=(\d+) t=([\d.]+)", line)
        events.append((float(match.group(3)), match.group(1), int(match.group(2))))
    events.sort()
    t0 = events[0][0]
    print("Executions recorded by the steps themselves:")
    for t, what, pid in events:
        print(f"  t={t - t0:6.2f}s  {what:10s} pid={pid}")

    problems = []
    starts = {pid: t for t, what, pid in events if what == "work-start"}
    ends = {pid: t for t, what, pid in events if what == "work-end"}
    pids = sorted(starts, key=starts.get)
    for first, second in zip(pids, pids[1:], strict=False):
        if starts[second] < ends.get(first, float("inf")):
            problems.append(
                f"two commands of the step ./work.py ran at the same time: pid {second} started "
                f"{ends[first] - starts[second]:.2f}s before pid {first} ended"
            )
    last_end = max(ends.values())
    for t, what, pid in events:
        if what == "use-start" and t < last_end:
            problems.append(
                f"./use.py (pid {pid}) started {last_end - t:.2f}s before the last command of its "
                "producer ./work.py ended, i.e. while out.txt was still being written"
            )
    nstart = len(re.findall(r"START │ \./work\.py", output))
    if nstart != len(re.findall(r"(SUCCESS|FAIL) │ \./work\.py", output)) or nstart > 1:
        print(f"The reporter shows {nstart} START event(s) for ./work.py.")
    if proc.returncode != 0:
        problems.append(f"stepup build ended with return code {proc.returncode}")
    if "ConsistencyError" in output:
        problems.append("the director raised a ConsistencyError and died")

    if problems:
        print()
        print("DEFECT:")
        for problem in problems:
            print("  - " + problem)
        print()
        print("Output of stepup build:")
        print(textwrap.indent(output, "    "))
        return True
    print("No problem observed.")
    return False


def main():
    # The consumer ends before (0.7 s) or after (3.0 s) the second command of its producer.
    # Which of the two failure modes shows up depends on that timing, both are defects.
    results = [scenario(use_sleep) for use_sleep in ("0.7", "3.0")]
    sys.exit(1 if any(results) else 0)


if __name__ == "__main__":
    main()
