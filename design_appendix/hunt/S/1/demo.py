#!/usr/bin/env python3
"""A retried step fails with "Input changed unexpectedly" on an input it had not been given yet.

Run as: cd /tmp/hunt_S && PYTHONPATH=/tmp/hunt_S /venv/bin/python _found/1/demo.py

Only real `stepup build` invocations are used (no internals are called).

History
-------
Build 1 (-j 3): `c.py` amends `x.txt` (built by a step that `subplan.py` defines) and then fails
    for an unrelated reason (`fail.flag` exists). The amended edge c.py <- x.txt stays in the graph.
Edit:   the user removes `fail.flag` and changes `cfg.txt`, which makes `subplan.py` define
    another step for `x.txt` (`echo v2 > x.txt` instead of `echo v1 > x.txt`).
Build 2 (-j 3): `c.py` (no hash, all inputs BUILT) is dispatched next to the hash check of
    `subplan.py`. `subplan.py` reruns, the new producer rewrites `x.txt`, and only then `c.py`
    calls `amend(inp="x.txt")` and reads the file.

Expected (and what -j 1 does): `c.py` is DEFERRED (producer finished after it started), runs again
and the build succeeds with c_out.txt == "C read: v2".
Observed with -j 3: `c.py` FAILS with "Input changed unexpectedly: x.txt" and the scheduler drains.
"""

import os
import shutil
import subprocess
import sys
import tempfile
import textwrap

ROOT = "/tmp/hunt_S"

PLAN = """\
#!/usr/bin/env python3
from stepup.core.api import run, static

static("subplan.py", "cfg.txt", "c.py")
run("./subplan.py", inp=["subplan.py", "cfg.txt"])
run("./c.py", inp=["c.py"], out=["c_out.txt"])
"""

SUBPLAN = """\
#!/usr/bin/env python3
from stepup.core.api import run

cfg = open("cfg.txt").read().strip()
run(f"echo {cfg} > x.txt", out=["x.txt"], shell=True)
"""

C_PY = """\
#!/usr/bin/env python3
import os, sys, time
from stepup.core.api import amend

# Some work before the step knows which extra input it needs.
time.sleep(float(os.environ.get("C_SLEEP", "0")))
amend(inp=["x.txt"])  # x.txt is only read after the director has accepted it
data = open("x.txt").read()
if os.path.exists("fail.flag"):
    sys.exit(1)
open("c_out.txt", "w").write("C read: " + data)
"""


def write(path, text, executable=False):
    with open(path, "w") as fh:
        fh.write(text)
    if executable:
        os.chmod(path, 0o755)


def build(workdir, njob, **extra_env):
    env = dict(os.environ)
    env["PATH"] = "/venv/bin:" + env.get("PATH", "")
    env["PYTHONPATH"] = ROOT
    env.pop("STEPUP_ROOT", None)
    env.update(extra_env)
    proc = subprocess.run(
        ["stepup", "build", "-j", str(njob)],
        cwd=workdir,
        env=env,
        capture_output=True,
        text=True,
        timeout=120,
        check=False,
    )
    return proc.returncode, proc.stdout + proc.stderr


def scenario(njob):
    workdir = tempfile.mkdtemp(prefix="hunt_S_demo1_", dir=os.path.join(ROOT, "_scratch"))
    try:
        write(os.path.join(workdir, "plan.py"), PLAN, True)
        write(os.path.join(workdir, "subplan.py"), SUBPLAN, True)
        write(os.path.join(workdir, "c.py"), C_PY, True)
        write(os.path.join(workdir, "cfg.txt"), "v1\n")
        write(os.path.join(workdir, "fail.flag"), "")
        # Build 1: c.py amends x.txt and fails afterwards.
        rc1, out1 = build(workdir, 3)
        if "FAIL │ ./c.py" not in out1:
            print(out1)
            raise RuntimeError("Build 1 did not end with the intended failure of c.py.")
        # The user fixes the problem and changes what subplan.py defines.
        os.remove(os.path.join(workdir, "fail.flag"))
        write(os.path.join(workdir, "cfg.txt"), "v2\n")
        # Build 2.
        rc2, out2 = build(workdir, njob, C_SLEEP="4")
        c_out_path = os.path.join(workdir, "c_out.txt")
        c_out = open(c_out_path).read() if os.path.exists(c_out_path) else None
        return rc2, out2, c_out
    finally:
        shutil.rmtree(workdir, ignore_errors=True)


def main():
    os.makedirs(os.path.join(ROOT, "_scratch"), exist_ok=True)
    rc_seq, _out_seq, c_out_seq = scenario(1)
    print(f"-j 1: build 2 returncode={rc_seq} c_out.txt={c_out_seq!r}")
    rc_par, out_par, c_out_par = scenario(3)
    print(f"-j 3: build 2 returncode={rc_par} c_out.txt={c_out_par!r}")
    bad = False
    if rc_par != 0 or c_out_par != "C read: v2\n":
        bad = True
        print()
        print("DEFECT: the same history succeeds with -j 1 and fails with -j 3.")
        print("Output of build 2 with -j 3:")
        print(textwrap.indent(out_par, "    "))
        if "Input changed unexpectedly: x.txt" in out_par:
            print(
                "c.py was failed (and the scheduler drained) for a change of x.txt that happened\n"
                "before c.py was given x.txt in this run: its amend() was answered with\n"
                "'not available yet' (unfresh), so it should have been DEFERRED and rerun."
            )
    if rc_seq != 0:
        print("NOTE: the -j 1 control did not succeed either, which is not what was expected.")
    sys.exit(1 if bad else 0)


if __name__ == "__main__":
    main()
