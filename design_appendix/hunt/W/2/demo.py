#!/usr/bin/env python3
"""Demo: an output of a detached, still running step is declared static by the new plan
while the executor hashes the outputs of that step: the ordinary completion path
(`Executor.execute_job`, not the dropped-verdict path repaired in d514284) then calls
`update_file_hashes(cause=SUCCEEDED)` on a CONFIRMED file and the director dies.

Run as: cd /tmp/hunt_W && PYTHONPATH=/tmp/hunt_W /venv/bin/python _found/2/demo.py
Only a real `stepup build -j 4` is used. The output is a 3 GiB sparse file, so that hashing
it takes a few seconds (the window in which the new declaration must arrive).
"""

import os
import shutil
import stat
import subprocess
import sys
import tempfile

FILES = {
    "plan.py": """\
#!/usr/bin/env python3
from stepup.core.api import plan, run, static

static("sub.py", "prov.py", "x.py")
run("./prov.py", out="trig.txt")
plan("./sub.py")
""",
    "prov.py": """\
#!/usr/bin/env python3
import time
from path import Path
while not Path("x_started.txt").exists():
    time.sleep(0.1)
Path("trig.txt").write_text("generate\\n")
""",
    # First run: declares x.py (out=x.out), then is deferred because trig.txt is not there.
    # Second run: x.py is dropped from the plan and x.out is declared a static file.
    # The waiting only serves to let the declaration arrive while x.out is being hashed.
    "sub.py": """\
#!/usr/bin/env python3
import time
from path import Path
from stepup.core.api import amend, run, static
from stepup.core.exceptions import InputNotFoundError

try:
    amend(inp="trig.txt")
except InputNotFoundError:
    run("./x.py", out="x.out")
    while not Path("x_started.txt").exists():
        time.sleep(0.1)
    raise
Path("sub2_started.txt").write_text("x")
while not Path("x_done.txt").exists():
    time.sleep(0.05)
time.sleep(0.3)
static("x.out")
""",
    "x.py": """\
#!/usr/bin/env python3
import time
from path import Path
Path("x_started.txt").write_text("started\\n")
while not Path("sub2_started.txt").exists():
    time.sleep(0.1)
with open("x.out", "wb") as fh:
    fh.truncate(3 * 1024**3)
Path("x_done.txt").write_text("done\\n")
""",
}


def main() -> int:
    os.makedirs("/tmp/hunt_W/_scratch", exist_ok=True)
    root = tempfile.mkdtemp(prefix="demo2_", dir="/tmp/hunt_W/_scratch")
    try:
        for name, text in FILES.items():
            path = os.path.join(root, name)
            with open(path, "w") as fh:
                fh.write(text)
            os.chmod(path, os.stat(path).st_mode | stat.S_IXUSR)
        env = dict(os.environ)
        env["PATH"] = "/venv/bin:" + env.get("PATH", "")
        env["PYTHONPATH"] = "/tmp/hunt_W"
        env.pop("STEPUP_ROOT", None)
        env.pop("STEPUP_DEBUG", None)
        proc = subprocess.run(
            ["/venv/bin/stepup", "build", "-j", "4"],
            cwd=root, env=env, stdout=subprocess.PIPE, stderr=subprocess.STDOUT,
            text=True, timeout=300, check=False,
        )
        out = proc.stdout
        if "ConsistencyError" in out and "The director raised an exception" in out:
            print(out[-3500:])
            print("=" * 80)
            print(f"DEFECT: stepup build exited with {proc.returncode}: the director died with a")
            print("ConsistencyError in Executor.execute_job -> update_file_hashes(new_out_hashes)")
            print("because x.out, hashed as an output of the detached step ./x.py, had been")
            print("declared static by the rerun of ./sub.py while the hash was computed.")
            return 1
        print(out[-3000:])
        print(f"No crash observed (exit code {proc.returncode}); the declaration may have")
        print("missed the hashing window on this machine.")
        return 0
    finally:
        shutil.rmtree(root, ignore_errors=True)


if __name__ == "__main__":
    sys.exit(main())
