#!/usr/bin/env python3
"""A step declared A -> B -> A while its command runs is recorded SUCCEEDED without its amended input.

Real `stepup build` runs in a temporary directory, nothing is patched.
"""

import os
import shutil
import sqlite3
import stat
import subprocess
import sys
import tempfile

PLAN = """\
#!/usr/bin/env python3
import os
from stepup.core.api import step, amend, static

static("work.py", "extra.txt")
step("sleep 1; echo c1 > c1.txt", shell=True, out=["c1.txt"])
step("sleep 2; echo c2 > c2.txt", shell=True, out=["c2.txt"])
have1 = os.path.exists("c1.txt")
have2 = os.path.exists("c2.txt")
with open("plan.log", "a") as fh:
    print(have1, have2, file=fh)
if have1 and not have2:
    # declaration B: only while c1.txt exists and c2.txt does not
    step("./work.py", inp=["work.py"], out=["a.txt", "b.txt"])
else:
    # declaration A
    step("./work.py", inp=["work.py"], out=["a.txt"])
amend(inp=["c1.txt"])
amend(inp=["c2.txt"])
"""

WORK = """\
#!/usr/bin/env python3
import time
from stepup.core.api import amend
with open("work.log", "a") as fh:
    print("run", file=fh)
amend(inp=["extra.txt"])
with open("extra.txt") as fh:
    data = fh.read()
time.sleep(4)
with open("a.txt", "w") as fh:
    fh.write(data)
with open("b.txt", "w") as fh:
    fh.write(data)
"""


def build(cwd, env):
    cp = subprocess.run(
        ["stepup", "build", "-j", "5", "--no-progress"],
        cwd=cwd, env=env, stdout=subprocess.PIPE, stderr=subprocess.STDOUT, text=True,
        timeout=180, check=False,
    )
    return cp.returncode, cp.stdout


def main():
    env = dict(os.environ)
    env["PATH"] = "/venv/bin:" + env.get("PATH", "")
    env["PYTHONPATH"] = "/tmp/hunt_T"
    env.pop("STEPUP_ROOT", None)
    tmp = tempfile.mkdtemp(prefix="hunt_T_aba_")
    try:
        for name, text in (("plan.py", PLAN), ("work.py", WORK)):
            path = os.path.join(tmp, name)
            with open(path, "w") as fh:
                fh.write(text)
            os.chmod(path, os.stat(path).st_mode | stat.S_IXUSR)
        with open(os.path.join(tmp, "extra.txt"), "w") as fh:
            fh.write("one\n")

        rc1, out1 = build(tmp, env)
        print(out1)
        plan_log = open(os.path.join(tmp, "plan.log")).read().split("\n")
        nrun1 = open(os.path.join(tmp, "work.log")).read().count("run")
        print("plan.py runs (c1 exists, c2 exists):", plan_log)
        print("work.py commands in build 1:", nrun1, " rc:", rc1)
        if "True False" not in plan_log or plan_log.count("True True") < 1:
            print("INCONCLUSIVE: the schedule A -> B -> A did not happen on this machine.")
            return 0

        db = sqlite3.connect(os.path.join(tmp, ".stepup", "graph.db"))
        (state,) = db.execute(
            "SELECT state FROM step JOIN node ON node.i = step.node WHERE label = './work.py'"
        ).fetchone()
        inputs = [
            row[0]
            for row in db.execute(
                "SELECT src.label FROM dependency JOIN node AS src ON src.i = source "
                "JOIN node AS snk ON snk.i = sink WHERE snk.label = './work.py'"
            )
        ]
        db.close()
        print("work.py state after build 1:", state, "(23 = SUCCEEDED) inputs in graph:", inputs)

        # The user now edits the file that work.py amended and read.
        with open(os.path.join(tmp, "extra.txt"), "w") as fh:
            fh.write("two\n")
        rc2, out2 = build(tmp, env)
        print(out2)
        nrun2 = open(os.path.join(tmp, "work.log")).read().count("run") - nrun1
        a_txt = open(os.path.join(tmp, "a.txt")).read()
        print("work.py commands in build 2:", nrun2, " rc:", rc2, " a.txt:", repr(a_txt))
        if a_txt != "two\n":
            print(
                "DEFECT: build 2 returned", rc2, "and left a.txt =", repr(a_txt),
                "although its (amended) input extra.txt is 'two'. work.py was recorded "
                "SUCCEEDED in build 1 without the input it amended:", inputs,
            )
            return 1
        print("ok")
        return 0
    finally:
        shutil.rmtree(tmp, ignore_errors=True)


if __name__ == "__main__":
    sys.exit(main())
