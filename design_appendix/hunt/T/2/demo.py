#!/usr/bin/env python3
"""The output written by the replaced command of a re-declared running step is orphaned.

Real `stepup build` runs in a temporary directory, nothing is patched.
For comparison, the same project is built with a plan that DROPS the step instead of
re-declaring it: there the old command's output is recorded and removed.
"""

import os
import shutil
import sqlite3
import stat
import subprocess
import sys
import tempfile

PLAN = """\
#!/usr/bin/env python3
import os
from stepup.core.api import step, amend, static

static("work.sh")
step("sleep 1; echo cfg > cfg.txt", shell=True, out=["cfg.txt"])
if os.path.exists("cfg.txt"):
    SECOND
else:
    step("./work.sh", inp=["work.sh"], out=["a.txt"])
amend(inp=["cfg.txt"])
"""

WORK = """\
#!/usr/bin/env bash
echo run >> work.log
sleep 3
echo a > a.txt
echo b > b.txt
"""


def run_case(second, env):
    tmp = tempfile.mkdtemp(prefix="hunt_T_orphan_")
    try:
        for name, text in (("plan.py", PLAN.replace("SECOND", second)), ("work.sh", WORK)):
            path = os.path.join(tmp, name)
            with open(path, "w") as fh:
                fh.write(text)
            os.chmod(path, os.stat(path).st_mode | stat.S_IXUSR)
        outs = []
        for _ in range(2):  # the second build shows that nothing cleans up later either
            cp = subprocess.run(
                ["stepup", "build", "-j", "4", "--no-progress"],
                cwd=tmp, env=env, stdout=subprocess.PIPE, stderr=subprocess.STDOUT, text=True,
                timeout=180, check=False,
            )
            outs.append((cp.returncode, cp.stdout))
        db = sqlite3.connect(os.path.join(tmp, ".stepup", "graph.db"))
        known = {row[0] for row in db.execute("SELECT label FROM node WHERE kind = 'file'")}
        db.close()
        on_disk = sorted(p for p in os.listdir(tmp) if p.endswith(".txt"))
        nrun = open(os.path.join(tmp, "work.log")).read().count("run")
        return outs, known, on_disk, nrun
    finally:
        shutil.rmtree(tmp, ignore_errors=True)


def main():
    env = dict(os.environ)
    env["PATH"] = "/venv/bin:" + env.get("PATH", "")
    env["PYTHONPATH"] = "/tmp/hunt_T"
    env.pop("STEPUP_ROOT", None)

    # Reference: the second run of plan.py no longer declares ./work.sh at all.
    outs, known, on_disk, nrun = run_case("pass", env)
    print(outs[0][1])
    print("[step dropped]      rc:", [o[0] for o in outs], "work.sh ran", nrun,
          "time(s); *.txt on disk:", on_disk)
    ref_ok = "a.txt" not in on_disk

    # Subject: the second run of plan.py declares ./work.sh with another output.
    outs, known, on_disk, nrun = run_case(
        'step("./work.sh", inp=["work.sh"], out=["b.txt"])', env
    )
    print(outs[0][1])
    print("[step re-declared]  rc:", [o[0] for o in outs], "work.sh ran", nrun,
          "time(s); *.txt on disk:", on_disk, "; files known to the graph:", sorted(known))
    if nrun != 2:
        print("INCONCLUSIVE: the re-declaration did not hit the running command.")
        return 0
    if "a.txt" in on_disk and "a.txt" not in known:
        print(
            "DEFECT: a.txt, written in this build by the command of ./work.sh (declared "
            "out=['a.txt'] when it started), is left on disk after two successful builds "
            "with cleaning enabled, and the graph no longer knows it. "
            f"(Reference case removed it: {ref_ok}.)"
        )
        return 1
    print("ok")
    return 0


if __name__ == "__main__":
    sys.exit(main())
