#!/usr/bin/env python3
"""Demo: cancelling ONE caller of `SocketAsyncRPCClient` while its request is being flushed
kills the receive loop, so ALL other calls in flight on that client lose their (correct,
already computed) replies and the client becomes unusable (C16).

Run as: cd /tmp/hunt_E && PYTHONPATH=/tmp/hunt_E /venv/bin/python _found/2/demo.py

Only public API is used: `SocketRPCServer.serve`, `allow_rpc`, `SocketAsyncRPCClient`
(`client.call.<name>(...)`, `client.close()`), over a real Unix domain socket,
plus `asyncio.Task.cancel()` on a caller, which the client's own docstrings claim to support
("an entry left behind by a cancelled caller is discarded when its response arrives").
"""

import asyncio
import os
import sys
import tempfile

from stepup.core.rpc import SocketAsyncRPCClient, SocketRPCServer, allow_rpc


class Handler:
    def __init__(self):
        self.release = asyncio.Event()
        self.slow_started = asyncio.Event()
        self.sizes = []

    @allow_rpc
    async def slow(self, x):
        """A call that stays in flight until the test releases it."""
        self.slow_started.set()
        await self.release.wait()
        return ("slow", x)

    @allow_rpc
    async def big(self, blob):
        """A call with a large argument (like a reporter page with the stdout of a step)."""
        self.sizes.append(len(blob))
        return len(blob)


async def main():
    with tempfile.TemporaryDirectory(prefix="hunt_E_2_") as tmp:
        path = os.path.join(tmp, "sock")
        handler = Handler()
        stop = asyncio.Event()
        server = asyncio.create_task(SocketRPCServer(handler, path).serve(stop))
        while not os.path.exists(path):
            await asyncio.sleep(0.01)

        client = SocketAsyncRPCClient(path)
        # Call 1: an innocent call that is in flight on the same client.
        slow_task = asyncio.create_task(client.call.slow(42))
        await handler.slow_started.wait()

        # Call 2: a large request. Its bytes are handed to the transport by `writer.write()`,
        # after which `writer.drain()` waits because the write buffer is above the high-water mark.
        big_task = asyncio.create_task(client.call.big(b"x" * (8 * 1024 * 1024)))
        await asyncio.sleep(0)  # let the caller run up to `await writer.drain()`
        await asyncio.sleep(0)
        # The caller of call 2 gives up (e.g. its task is cancelled by a shutdown or a timeout).
        big_task.cancel()
        try:
            await big_task
        except asyncio.CancelledError:
            print("call 2 (big) was cancelled by its caller while flushing its request")
        else:
            print("call 2 completed before it could be cancelled; schedule not reproduced")
            return 0

        # The request of call 2 still reaches the server in full, and is answered.
        for _ in range(500):
            if handler.sizes:
                break
            await asyncio.sleep(0.01)
        print("server received and handled the cancelled call 2 in full:", handler.sizes)

        # Now let call 1 finish on the server. Its reply is ("slow", 42).
        handler.release.set()
        problems = []
        try:
            result = await asyncio.wait_for(slow_task, 10)
            print("call 1 (slow) returned", result)
        except BaseException as exc:  # noqa: BLE001
            problems.append(f"call 1 (slow), which nobody cancelled, raised {exc!r}")

        # And the client should still be usable for new calls.
        try:
            result = await asyncio.wait_for(client.call.big(b"abc"), 10)
            print("call 3 (big) returned", result)
        except BaseException as exc:  # noqa: BLE001
            problems.append(f"call 3 (new call after the cancellation) raised {exc!r}")

        try:
            await client.close()
        except BaseException as exc:  # noqa: BLE001
            problems.append(f"close() raised {exc!r}")
        stop.set()
        await server

    if problems:
        print()
        print("DEFECT (C16): cancelling one caller disturbed the other calls of the client:")
        for line in problems:
            print("  -", line)
        return 1
    print("OK")
    return 0


if __name__ == "__main__":
    sys.exit(asyncio.run(main()))
