#!/usr/bin/env python3
"""Demo: a step that is fully recycled while its command is running gets the resource claim of
the new declaration, so the units it was admitted with are partly handed out a second time (C12).

Run as: cd /tmp/hunt_E && PYTHONPATH=/tmp/hunt_E /venv/bin/python _found/3/demo.py

This is a real `stepup build` in a temporary directory; only the public plan API
(`static`, `run`, `step`, `amend`) is used.
"""

import os
import stat
import subprocess
import sys
import tempfile

PLAN = """\
#!/usr/bin/env python3
from stepup.core.api import run, static

static("driver.py", "work.py", "other.py", "make_gate.py")
run("./driver.py")
# Creates gate.txt once the driver asked for it, which wakes up the deferred driver.
run("./make_gate.py", out="gate.txt")
"""

DRIVER = """\
#!/usr/bin/env python3
import os, time
from stepup.core.api import amend, step

# First run: the work step claims both units of `tok`.
# Second run (after the defer): the driver has learned that one unit is enough,
# and it also declares another step that needs one unit.
second = os.path.exists("gate.txt")
step("./work.py", resources={"tok": 1 if second else 2})
if second:
    step("./other.py", resources={"tok": 1})

with open("go.txt", "w") as fh:
    fh.write("go")
# First run: gate.txt is not built yet, so the driver is deferred here (exception).
amend(inp="gate.txt")

# Second run: give the scheduler a moment, then let all commands finish.
time.sleep(2.0)
with open("release.txt", "w") as fh:
    fh.write("done")
"""

WORK = """\
#!/usr/bin/env python3
import os, sys, time
name = os.path.basename(sys.argv[0])
with open("cmd.log", "a") as fh:
    fh.write(f"START {name} {time.monotonic():.3f}\\n")
while not os.path.exists("release.txt"):
    time.sleep(0.1)
with open("cmd.log", "a") as fh:
    fh.write(f"END {name} {time.monotonic():.3f}\\n")
"""

MAKE_GATE = """\
#!/usr/bin/env python3
import os, time
# Wait until the driver has declared the work step and the work command is running.
while not (os.path.exists("go.txt") and os.path.exists("cmd.log")):
    time.sleep(0.1)
with open("gate.txt", "w") as fh:
    fh.write("gate")
"""

AVAILABLE = 2
# The units each command was admitted with (work.py: first declaration, when it was started).
CLAIM = {"work.py": 2, "other.py": 1}


def main():
    with tempfile.TemporaryDirectory(prefix="hunt_E_3_") as tmp:
        for name, text in [
            ("plan.py", PLAN),
            ("driver.py", DRIVER),
            ("work.py", WORK),
            ("other.py", WORK),
            ("make_gate.py", MAKE_GATE),
        ]:
            path = os.path.join(tmp, name)
            with open(path, "w") as fh:
                fh.write(text)
            os.chmod(path, os.stat(path).st_mode | stat.S_IXUSR)
        env = {k: v for k, v in os.environ.items() if not k.startswith("STEPUP_")}
        env["PATH"] = "/venv/bin:" + env.get("PATH", "")
        env["PYTHONPATH"] = "/tmp/hunt_E"
        env["HOME"] = tmp
        env["COLUMNS"] = "100"
        try:
            proc = subprocess.run(
                ["/venv/bin/stepup", "build", "-j", "4", "--resources", f"tok:{AVAILABLE}",
                 "--no-progress"],
                cwd=tmp, env=env, stdin=subprocess.DEVNULL, stdout=subprocess.PIPE,
                stderr=subprocess.STDOUT, text=True, timeout=120,
            )
            out, rc = proc.stdout, proc.returncode
        except subprocess.TimeoutExpired as exc:
            out = exc.stdout.decode() if isinstance(exc.stdout, bytes) else (exc.stdout or "")
            rc = "TIMEOUT"
        print(f"---- stepup build output (returncode {rc}) ----")
        print(out)
        log_path = os.path.join(tmp, "cmd.log")
        log = open(log_path).read() if os.path.exists(log_path) else ""
        print("---- cmd.log ----")
        print(log)

    events = []
    for iline, line in enumerate(log.splitlines()):
        kind, name, t = line.split()
        events.append((float(t), iline, kind, name))
    events.sort()
    held = 0
    worst = 0
    for t, _, kind, name in events:
        held += CLAIM[name] if kind == "START" else -CLAIM[name]
        print(f"  t={t:.3f} {kind:5s} {name:9s} -> units of `tok` held by running commands: {held}")
        worst = max(worst, held)
    if worst <= AVAILABLE:
        print("OK: the limit was respected.")
        return 0
    print()
    print(f"DEFECT (C12): the running commands together held {worst} units of `tok`, "
          f"while only {AVAILABLE} were made available.")
    print("work.py was started under a claim of 2 units (its declaration at that time); the "
          "re-declaration of the running step lowered the stored claim to 1, and the scheduler "
          "handed the freed unit(s) to other.py while work.py was still running.")
    return 1


if __name__ == "__main__":
    sys.exit(main())
