#!/usr/bin/env python3
"""Demo: a step that is re-declared differently while its command is still running
is dispatched a second time, so two commands of the same step run concurrently and
together hold 2 units of a resource of which only 1 unit was made available (C12).

Run as: cd /tmp/hunt_E && PYTHONPATH=/tmp/hunt_E /venv/bin/python _found/1/demo.py

This is a real `stepup build` in a temporary directory; only the public plan API
(`static`, `run`, `step`, `amend`) is used.
"""

import os
import stat
import subprocess
import sys
import tempfile
import textwrap

PLAN = """\
#!/usr/bin/env python3
from stepup.core.api import run, static

static("driver.py", "work.py", "make_gate.py")
run("./driver.py")
# Creates gate.txt once the driver asked for it, which wakes up the deferred driver.
run("./make_gate.py", out="gate.txt")
"""

DRIVER = """\
#!/usr/bin/env python3
import os, time
from stepup.core.api import amend, step

# The work step needs the only unit of the resource `tok`.
# Once gate.txt exists, the driver knows that the work step should also depend on it.
# (Same command, hence same step label, but a different list of inputs.)
inputs = ["gate.txt"] if os.path.exists("gate.txt") else []
step("./work.py", inp=inputs, resources={"tok": 1})

with open("go.txt", "w") as fh:
    fh.write("go")
# First run: gate.txt is not built yet, so the driver is deferred here (exception).
amend(inp="gate.txt")

# Second run: give the scheduler a moment, then let all work commands finish.
deadline = time.time() + 5
while time.time() < deadline:
    with open("work.log") as fh:
        if fh.read().count("START") >= 2:
            break
    time.sleep(0.1)
time.sleep(0.5)
with open("release.txt", "w") as fh:
    fh.write("done")
"""

WORK = """\
#!/usr/bin/env python3
import os, time
with open("work.log", "a") as fh:
    fh.write(f"START {os.getpid()} job={os.environ['STEPUP_JOB_I']} {time.monotonic():.3f}\\n")
while not os.path.exists("release.txt"):
    time.sleep(0.1)
with open("work.log", "a") as fh:
    fh.write(f"END {os.getpid()} job={os.environ['STEPUP_JOB_I']} {time.monotonic():.3f}\\n")
"""

MAKE_GATE = """\
#!/usr/bin/env python3
import os, time
# Wait until the driver has declared the work step and the work command is running.
while not (os.path.exists("go.txt") and os.path.exists("work.log")):
    time.sleep(0.1)
with open("gate.txt", "w") as fh:
    fh.write("gate")
"""


def main():
    with tempfile.TemporaryDirectory(prefix="hunt_E_1_") as tmp:
        for name, text in [
            ("plan.py", PLAN),
            ("driver.py", DRIVER),
            ("work.py", WORK),
            ("make_gate.py", MAKE_GATE),
        ]:
            path = os.path.join(tmp, name)
            with open(path, "w") as fh:
                fh.write(text)
            os.chmod(path, os.stat(path).st_mode | stat.S_IXUSR)
        env = {
            k: v for k, v in os.environ.items() if not k.startswith("STEPUP_")
        }
        env["PATH"] = "/venv/bin:" + env.get("PATH", "")
        env["PYTHONPATH"] = "/tmp/hunt_E"
        env["HOME"] = tmp
        env["COLUMNS"] = "100"
        try:
            proc = subprocess.run(
                ["/venv/bin/stepup", "build", "-j", "4", "--resources", "tok:1", "--no-progress"],
                cwd=tmp,
                env=env,
                stdin=subprocess.DEVNULL,
                stdout=subprocess.PIPE,
                stderr=subprocess.STDOUT,
                text=True,
                timeout=120,
            )
            out = proc.stdout
            rc = proc.returncode
        except subprocess.TimeoutExpired as exc:
            out = (exc.stdout or b"").decode() if isinstance(exc.stdout, bytes) else (exc.stdout or "")
            rc = "TIMEOUT"
        print("---- stepup build output (returncode %s) ----" % rc)
        print(out)
        log_path = os.path.join(tmp, "work.log")
        log = open(log_path).read() if os.path.exists(log_path) else ""
        print("---- work.log ----")
        print(log)

    # Analyse: intervals of the ./work.py command.
    starts, ends = {}, {}
    for line in log.splitlines():
        kind, pid, job, t = line.split()
        (starts if kind == "START" else ends)[pid] = (float(t), job)
    intervals = sorted((starts[p][0], ends.get(p, (float("inf"),))[0], p, starts[p][1]) for p in starts)
    overlap = None
    for i in range(len(intervals)):
        for j in range(i + 1, len(intervals)):
            a, b = intervals[i], intervals[j]
            if b[0] < a[1]:
                overlap = (a, b)
    if overlap is None:
        print("OK: the commands of ./work.py never overlapped.")
        return 0
    a, b = overlap
    print(textwrap.dedent(f"""\
        DEFECT (C12): two commands of the step `./work.py` ran at the same time:
          pid {a[2]} ({a[3]}): {a[0]:.3f} .. {a[1]:.3f}
          pid {b[2]} ({b[3]}): {b[0]:.3f} .. {b[1]:.3f}
        Each of them requires 1 unit of resource `tok`, of which only 1 was made
        available (--resources tok:1), so 2 units were held at the same instant.
        """))
    return 1


if __name__ == "__main__":
    sys.exit(main())
