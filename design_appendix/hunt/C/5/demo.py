#!/usr/bin/env python3
"""Defect 5 (C14): `AsyncInotifyWrapper.change_loop` reacts to a directory event with inotify
syscalls and a directory scan, none of which tolerates that the file system has moved on.
`mv d t; rm -r t` (rm_watch on a watch the kernel already dropped: EINVAL) or a quick
`mkdir d; rmdir d` of an awaited directory (add_watch/iterdir: ENOENT) raises in the task,
which takes the whole director down. A restart on the same tree builds normally.

Run as: cd /tmp/hunt_C && PYTHONPATH=/tmp/hunt_C /venv/bin/python _found/5/demo.py
Exits 1 when the watching director dies (the defect), 0 otherwise.
"""
import os
import shutil
import subprocess
import sys
import tempfile
import time
from pathlib import Path

HERE = Path(__file__).resolve().parent
WORK = HERE / "_work"
ENV = {k: v for k, v in os.environ.items() if not k.startswith("STEPUP_")}
ENV.update(
    PATH="/venv/bin:" + os.environ.get("PATH", ""),
    PYTHONPATH="/tmp/hunt_C",
    PYTHONUNBUFFERED="yes",
    COLUMNS="100",
)


def sh(cmd, cwd, check=True, timeout=120):
    """Run a shell command in `cwd` with the StepUp environment, return CompletedProcess."""
    return subprocess.run(
        cmd, shell=True, cwd=cwd, env=ENV, check=check, timeout=timeout,
        stdout=subprocess.PIPE, stderr=subprocess.STDOUT, text=True,
    )


def write(root, rel, text, exe=False):
    path = Path(root) / rel
    path.parent.mkdir(parents=True, exist_ok=True)
    path.write_text(text)
    if exe:
        path.chmod(0o755)


def new_root(prefix):
    WORK.mkdir(exist_ok=True)
    return tempfile.mkdtemp(prefix=prefix, dir=WORK)


class WatchingDirector:
    """`stepup build -w` in the background, driven with the `stepup` CLI like tests/examples."""

    def __init__(self, root, jobs=2):
        self.root = root
        self.log = open(os.path.join(root, ".director_stdout.txt"), "w")
        self.proc = subprocess.Popen(
            f"stepup build -j {jobs} -w", shell=True, cwd=root, env=ENV,
            stdout=self.log, stderr=subprocess.STDOUT,
        )

    def wait(self):
        return sh("stepup wait", self.root, check=False)

    def rebuild(self, settle=1.0):
        # Give inotify and the watcher ample time to deliver and record the events.
        time.sleep(settle)
        r1 = sh("stepup rebuild", self.root, check=False)
        r2 = sh("stepup wait", self.root, check=False)
        return r1.returncode == 0 and r2.returncode == 0

    def join(self):
        sh("stepup join", self.root, check=False)
        try:
            rc = self.proc.wait(timeout=30)
        except subprocess.TimeoutExpired:
            self.proc.kill()
            rc = self.proc.wait()
        self.log.close()
        return rc

    def stdout(self):
        return Path(self.root, ".director_stdout.txt").read_text()


def restart_build(root, jobs=2):
    """A plain `stepup build` (no watch): what a restart does on the current tree."""
    return sh(f"stepup build -j {jobs}", root, check=False)


def read(root, rel):
    path = Path(root) / rel
    return path.read_text() if path.is_file() else "<absent>"


NDIR = 5
PLAN = f"""#!/usr/bin/env python3
from stepup.core.api import static, step
inp = [f"d{{i}}/inp.txt" for i in range({NDIR})]
static(inp)
step("cat " + " ".join(inp) + " > out.txt", inp=inp, out="out.txt", shell=True)
"""


def setup(root):
    write(root, "plan.py", PLAN, exe=True)
    for i in range(NDIR):
        write(root, f"d{i}/inp.txt", "one\n")


def mutate(root):
    # Throw the input directories away the careful way: move aside, then delete.
    for i in range(NDIR):
        os.rename(f"{root}/d{i}", f"{root}/trash{i}")
        shutil.rmtree(f"{root}/trash{i}")
    time.sleep(0.5)
    # An awaited directory appears and disappears again (e.g. a mistyped mkdir, a tool's
    # temporary checkout), several times to give the director a chance to look in between.
    for _ in range(20):
        os.mkdir(f"{root}/d0")
        os.rmdir(f"{root}/d0")
    time.sleep(0.5)
    # Finally the inputs are restored with new content.
    for i in range(NDIR):
        write(root, f"d{i}/inp.txt", "two\n")


def main():
    shutil.rmtree(WORK, ignore_errors=True)
    # Watch mode.
    wroot = new_root("watch_")
    setup(wroot)
    director = WatchingDirector(wroot)
    director.wait()
    mutate(wroot)
    alive = director.rebuild()
    wrc = director.join()
    # Restart.
    rroot = new_root("restart_")
    setup(rroot)
    restart_build(rroot)
    mutate(rroot)
    rrc = restart_build(rroot).returncode
    wout, rout = read(wroot, "out.txt"), read(rroot, "out.txt")
    print(f"watch-mode rebuild: director reachable={alive} rc={wrc} out.txt={wout!r}")
    print(f"restart           : rc={rrc} out.txt={rout!r}")
    if (wrc, wout) != (rrc, rout):
        text = director.stdout()
        start = text.find("The director raised an exception")
        print("--- watching director")
        print(text[max(0, start - 200):] if start >= 0 else "\n".join(text.splitlines()[-20:]))
        print("DEFECT C14: the watching director crashed on a sequence of directory moves,")
        print("removals and creations; a restart on the same tree builds fine.")
        return 1
    print("OK: watch-mode rebuild and restart agree.")
    return 0


if __name__ == "__main__":
    sys.exit(main())
