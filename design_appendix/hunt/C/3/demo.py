#!/usr/bin/env python3
"""Defect 3 (C14): a hash job that fails during the watch phase sets `Scheduler.draining`,
"which is what surfaces the failure", but `DirectorHandler.start_build_phase` clears the flag
unconditionally. A watch-mode rebuild therefore reports a clean, successful build (rc 0),
while a restart on the same tree ends DRAINED (rc 32) without running anything.

Run as: cd /tmp/hunt_C && PYTHONPATH=/tmp/hunt_C /venv/bin/python _found/3/demo.py
Exits 1 when the watch-mode rebuild and the restart disagree (the defect), 0 otherwise.
"""
import os
import shutil
import subprocess
import sys
import tempfile
import time
from pathlib import Path

HERE = Path(__file__).resolve().parent
WORK = HERE / "_work"
ENV = {k: v for k, v in os.environ.items() if not k.startswith("STEPUP_")}
ENV.update(
    PATH="/venv/bin:" + os.environ.get("PATH", ""),
    PYTHONPATH="/tmp/hunt_C",
    PYTHONUNBUFFERED="yes",
    COLUMNS="100",
)


def sh(cmd, cwd, check=True, timeout=120):
    """Run a shell command in `cwd` with the StepUp environment, return CompletedProcess."""
    return subprocess.run(
        cmd, shell=True, cwd=cwd, env=ENV, check=check, timeout=timeout,
        stdout=subprocess.PIPE, stderr=subprocess.STDOUT, text=True,
    )


def write(root, rel, text, exe=False):
    path = Path(root) / rel
    path.parent.mkdir(parents=True, exist_ok=True)
    path.write_text(text)
    if exe:
        path.chmod(0o755)


def new_root(prefix):
    WORK.mkdir(exist_ok=True)
    return tempfile.mkdtemp(prefix=prefix, dir=WORK)


class WatchingDirector:
    """`stepup build -w` in the background, driven with the `stepup` CLI like tests/examples."""

    def __init__(self, root, jobs=2):
        self.root = root
        self.log = open(os.path.join(root, ".director_stdout.txt"), "w")
        self.proc = subprocess.Popen(
            f"stepup build -j {jobs} -w", shell=True, cwd=root, env=ENV,
            stdout=self.log, stderr=subprocess.STDOUT,
        )

    def wait(self):
        return sh("stepup wait", self.root, check=False)

    def rebuild(self, settle=1.0):
        # Give inotify and the watcher ample time to deliver and record the events.
        time.sleep(settle)
        r1 = sh("stepup rebuild", self.root, check=False)
        r2 = sh("stepup wait", self.root, check=False)
        return r1.returncode == 0 and r2.returncode == 0

    def join(self):
        sh("stepup join", self.root, check=False)
        try:
            rc = self.proc.wait(timeout=30)
        except subprocess.TimeoutExpired:
            self.proc.kill()
            rc = self.proc.wait()
        self.log.close()
        return rc

    def stdout(self):
        return Path(self.root, ".director_stdout.txt").read_text()


def restart_build(root, jobs=2):
    """A plain `stepup build` (no watch): what a restart does on the current tree."""
    return sh(f"stepup build -j {jobs}", root, check=False)


def read(root, rel):
    path = Path(root) / rel
    return path.read_text() if path.is_file() else "<absent>"


PLAN = """#!/usr/bin/env python3
from stepup.core.api import static, step
static("inp.txt")
step("cp inp.txt out.txt", inp="inp.txt", out="out.txt", shell=True)
"""


def setup(root):
    write(root, "plan.py", PLAN, exe=True)
    write(root, "inp.txt", "one\n")


def mutate(root):
    # The static input is replaced by a directory of the same name,
    # which FileHash.refreshed() cannot hash (HashFailedError).
    os.remove(f"{root}/inp.txt")
    os.mkdir(f"{root}/inp.txt")


def main():
    shutil.rmtree(WORK, ignore_errors=True)
    # Watch mode.
    wroot = new_root("watch_")
    setup(wroot)
    director = WatchingDirector(wroot)
    director.wait()
    mutate(wroot)
    director.rebuild()
    wrc = director.join()
    wtail = director.stdout().split("PHASE │ watch", 1)[1]
    # Restart.
    rroot = new_root("restart_")
    setup(rroot)
    restart_build(rroot)
    mutate(rroot)
    result = restart_build(rroot)
    rrc = result.returncode
    print(f"watch-mode rebuild: rc={wrc}")
    print(f"restart           : rc={rrc}")
    if wrc != rrc:
        print("MISMATCH in the return code on the same file-system state.")
        print("--- watching director, from the first watch phase on")
        print(wtail.strip())
        print("--- restarted director")
        print(result.stdout.strip())
        print("DEFECT C14: the watch-mode rebuild claims success (no WARNING, rc 0) although")
        print("inp.txt could not be hashed and is still CONFIRMED with its old hash;")
        print("the restart reports 'Scheduler is draining' and rc 32.")
        return 1
    print("OK: watch-mode rebuild and restart agree.")
    return 0


if __name__ == "__main__":
    sys.exit(main())
