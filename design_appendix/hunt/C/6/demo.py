#!/usr/bin/env python3
"""Defect 6 (C03): the amend() freshness check only covers BUILT inputs (producer window).
A static input that is confirmed for the first time by the amend() call itself has no
baseline from before the step started: if it is edited between the step's read and its
amend(), the new content is recorded, the step succeeds, and nothing ever reruns it.

Run as: cd /tmp/hunt_C && PYTHONPATH=/tmp/hunt_C /venv/bin/python _found/6/demo.py
Exits 1 when a step is recorded as succeeded on an input that changed while it ran.
"""
import os
import shutil
import subprocess
import sys
import tempfile
import time
from pathlib import Path

HERE = Path(__file__).resolve().parent
WORK = HERE / "_work"
ENV = {k: v for k, v in os.environ.items() if not k.startswith("STEPUP_")}
ENV.update(
    PATH="/venv/bin:" + os.environ.get("PATH", ""),
    PYTHONPATH="/tmp/hunt_C",
    PYTHONUNBUFFERED="yes",
    COLUMNS="100",
)


def sh(cmd, cwd, check=True, timeout=120):
    """Run a shell command in `cwd` with the StepUp environment, return CompletedProcess."""
    return subprocess.run(
        cmd, shell=True, cwd=cwd, env=ENV, check=check, timeout=timeout,
        stdout=subprocess.PIPE, stderr=subprocess.STDOUT, text=True,
    )


def write(root, rel, text, exe=False):
    path = Path(root) / rel
    path.parent.mkdir(parents=True, exist_ok=True)
    path.write_text(text)
    if exe:
        path.chmod(0o755)


def new_root(prefix):
    WORK.mkdir(exist_ok=True)
    return tempfile.mkdtemp(prefix=prefix, dir=WORK)


class WatchingDirector:
    """`stepup build -w` in the background, driven with the `stepup` CLI like tests/examples."""

    def __init__(self, root, jobs=2):
        self.root = root
        self.log = open(os.path.join(root, ".director_stdout.txt"), "w")
        self.proc = subprocess.Popen(
            f"stepup build -j {jobs} -w", shell=True, cwd=root, env=ENV,
            stdout=self.log, stderr=subprocess.STDOUT,
        )

    def wait(self):
        return sh("stepup wait", self.root, check=False)

    def rebuild(self, settle=1.0):
        # Give inotify and the watcher ample time to deliver and record the events.
        time.sleep(settle)
        r1 = sh("stepup rebuild", self.root, check=False)
        r2 = sh("stepup wait", self.root, check=False)
        return r1.returncode == 0 and r2.returncode == 0

    def join(self):
        sh("stepup join", self.root, check=False)
        try:
            rc = self.proc.wait(timeout=30)
        except subprocess.TimeoutExpired:
            self.proc.kill()
            rc = self.proc.wait()
        self.log.close()
        return rc

    def stdout(self):
        return Path(self.root, ".director_stdout.txt").read_text()


def restart_build(root, jobs=2):
    """A plain `stepup build` (no watch): what a restart does on the current tree."""
    return sh(f"stepup build -j {jobs}", root, check=False)


def read(root, rel):
    path = Path(root) / rel
    return path.read_text() if path.is_file() else "<absent>"


PLAN = """#!/usr/bin/env python3
from stepup.core.api import static, step
static("data/", "work.py")
step("./work.py", inp="work.py", out="result.txt")
"""

# The step reads its input first and declares it afterwards, which the amend() docstring
# explicitly allows ("it is also safe to call amend() afterward").
WORK_PY = """#!/usr/bin/env python3
import os, time
from stepup.core.api import amend
sync = os.environ["DEMO_SYNC"]
with open("data/x.txt") as fh:
    text = fh.read()
open(os.path.join(sync, "READ_DONE"), "w").close()
while not os.path.exists(os.path.join(sync, "EDIT_DONE")):
    time.sleep(0.05)
amend(inp="data/x.txt")
with open("result.txt", "w") as fh:
    fh.write(text)
"""


def wait_for(path, timeout=60):
    t0 = time.time()
    while not os.path.exists(path):
        if time.time() - t0 > timeout:
            raise TimeoutError(path)
        time.sleep(0.05)


def main():
    shutil.rmtree(WORK, ignore_errors=True)
    root = new_root("build_")
    sync = new_root("sync_")
    ENV["DEMO_SYNC"] = sync
    write(root, "plan.py", PLAN, exe=True)
    write(root, "work.py", WORK_PY, exe=True)
    write(root, "data/x.txt", "old\n")

    # Build 1, with an external edit of the input while ./work.py is running.
    log = open(os.path.join(root, ".build1.txt"), "w")
    proc = subprocess.Popen("stepup build -j 2", shell=True, cwd=root, env=ENV,
                            stdout=log, stderr=subprocess.STDOUT)
    wait_for(os.path.join(sync, "READ_DONE"))
    write(root, "data/x.txt", "new\n")  # the user saves the file while the step runs
    open(os.path.join(sync, "EDIT_DONE"), "w").close()
    rc1 = proc.wait(timeout=120)
    log.close()
    out1 = Path(root, ".build1.txt").read_text()

    # Build 2: a restart on the resulting tree.
    build2 = restart_build(root)
    inp, result = read(root, "data/x.txt"), read(root, "result.txt")
    print(f"build 1 rc={rc1}, build 2 rc={build2.returncode}")
    print(f"data/x.txt at the end of the build : {inp!r}")
    print(f"result.txt (copy made by ./work.py): {result!r}")
    succeeded = "SUCCESS │ ./work.py" in out1
    reran = "START │ ./work.py" in build2.stdout
    if succeeded and rc1 == 0 and result != inp and not reran:
        print("--- build 1")
        print(out1.strip())
        print("--- build 2 (restart)")
        print(build2.stdout.strip())
        print("DEFECT C03: ./work.py is recorded as SUCCEEDED although its amended input")
        print("data/x.txt changed while the command ran; the recorded hash is that of the new")
        print("content, so neither the post-run check, a watch rebuild nor a restart reruns it.")
        return 1
    print("OK: the change underneath the running step was noticed.")
    return 0


if __name__ == "__main__":
    sys.exit(main())
