#!/usr/bin/env python3
"""Defect 2 (C14): when a directory is moved away, only its own inotify watch is dropped.
The watches of its watched descendants stay alive on the moved inodes, keyed by the old path.
When the directory tree is created again, `change_loop` believes those descendants are still
watched and never installs a watch on the new directories: later edits are invisible.

Run as: cd /tmp/hunt_C && PYTHONPATH=/tmp/hunt_C /venv/bin/python _found/2/demo.py
Exits 1 when the watch-mode rebuild and the restart disagree (the defect), 0 otherwise.
"""
import os
import shutil
import subprocess
import sys
import tempfile
import time
from pathlib import Path

HERE = Path(__file__).resolve().parent
WORK = HERE / "_work"
ENV = {k: v for k, v in os.environ.items() if not k.startswith("STEPUP_")}
ENV.update(
    PATH="/venv/bin:" + os.environ.get("PATH", ""),
    PYTHONPATH="/tmp/hunt_C",
    PYTHONUNBUFFERED="yes",
    COLUMNS="100",
)


def sh(cmd, cwd, check=True, timeout=120):
    """Run a shell command in `cwd` with the StepUp environment, return CompletedProcess."""
    return subprocess.run(
        cmd, shell=True, cwd=cwd, env=ENV, check=check, timeout=timeout,
        stdout=subprocess.PIPE, stderr=subprocess.STDOUT, text=True,
    )


def write(root, rel, text, exe=False):
    path = Path(root) / rel
    path.parent.mkdir(parents=True, exist_ok=True)
    path.write_text(text)
    if exe:
        path.chmod(0o755)


def new_root(prefix):
    WORK.mkdir(exist_ok=True)
    return tempfile.mkdtemp(prefix=prefix, dir=WORK)


class WatchingDirector:
    """`stepup build -w` in the background, driven with the `stepup` CLI like tests/examples."""

    def __init__(self, root, jobs=2):
        self.root = root
        self.log = open(os.path.join(root, ".director_stdout.txt"), "w")
        self.proc = subprocess.Popen(
            f"stepup build -j {jobs} -w", shell=True, cwd=root, env=ENV,
            stdout=self.log, stderr=subprocess.STDOUT,
        )

    def wait(self):
        return sh("stepup wait", self.root, check=False)

    def rebuild(self, settle=1.0):
        # Give inotify and the watcher ample time to deliver and record the events.
        time.sleep(settle)
        r1 = sh("stepup rebuild", self.root, check=False)
        r2 = sh("stepup wait", self.root, check=False)
        return r1.returncode == 0 and r2.returncode == 0

    def join(self):
        sh("stepup join", self.root, check=False)
        try:
            rc = self.proc.wait(timeout=30)
        except subprocess.TimeoutExpired:
            self.proc.kill()
            rc = self.proc.wait()
        self.log.close()
        return rc

    def stdout(self):
        return Path(self.root, ".director_stdout.txt").read_text()


def restart_build(root, jobs=2):
    """A plain `stepup build` (no watch): what a restart does on the current tree."""
    return sh(f"stepup build -j {jobs}", root, check=False)


def read(root, rel):
    path = Path(root) / rel
    return path.read_text() if path.is_file() else "<absent>"


PLAN = """#!/usr/bin/env python3
from stepup.core.api import static, step
static("data/sub/inp.txt")
step("cp data/sub/inp.txt out.txt", inp="data/sub/inp.txt", out="out.txt", shell=True)
"""


def setup(root):
    write(root, "plan.py", PLAN, exe=True)
    write(root, "data/sub/inp.txt", "one\n")


def replace_tree(root):
    # Swap the data directory for a fresh copy, e.g. what a deployment script or a
    # `git stash`-like tool does: move the old tree aside, create the new one.
    os.rename(f"{root}/data", f"{root}/data.old")
    write(root, "data/sub/inp.txt", "one\n")


def edit(root):
    write(root, "data/sub/inp.txt", "two\n")


def main():
    shutil.rmtree(WORK, ignore_errors=True)
    # Watch mode.
    wroot = new_root("watch_")
    setup(wroot)
    director = WatchingDirector(wroot)
    director.wait()
    replace_tree(wroot)
    director.rebuild()  # nothing to do: same content
    edit(wroot)
    director.rebuild()  # must rerun the copy step
    wrc = director.join()
    # Restart.
    rroot = new_root("restart_")
    setup(rroot)
    restart_build(rroot)
    replace_tree(rroot)
    restart_build(rroot)
    edit(rroot)
    rrc = restart_build(rroot).returncode
    wout, rout = read(wroot, "out.txt"), read(rroot, "out.txt")
    print(f"watch-mode rebuild: rc={wrc} out.txt={wout!r}  (data/sub/inp.txt={read(wroot, 'data/sub/inp.txt')!r})")
    print(f"restart           : rc={rrc} out.txt={rout!r}  (data/sub/inp.txt={read(rroot, 'data/sub/inp.txt')!r})")
    if (wrc, wout) != (rrc, rout):
        print("MISMATCH: after `mv data data.old; mkdir -p data/sub`, the edit of data/sub/inp.txt")
        print("produced no inotify event, because watches['data/sub'] still holds the watch of")
        print("the moved directory (now data.old/sub) and is therefore never re-installed.")
        print("--- tail of the watching director's output")
        print("\n".join(director.stdout().splitlines()[-14:]))
        print("DEFECT C14: a watch-mode rebuild is not equivalent to a restart.")
        return 1
    print("OK: watch-mode rebuild and restart agree.")
    return 0


if __name__ == "__main__":
    sys.exit(main())
