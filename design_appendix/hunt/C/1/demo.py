#!/usr/bin/env python3
"""Defect 1 (C14): the watcher drops every event of a directory that is not already a key of
`AsyncInotifyWrapper.watches`, so new glob matches in a new subdirectory, and matched
directories themselves, are invisible to a watch-mode rebuild while a restart sees them.

Run as: cd /tmp/hunt_C && PYTHONPATH=/tmp/hunt_C /venv/bin/python _found/1/demo.py
Exits 1 when the watch-mode rebuild and the restart disagree (the defect), 0 otherwise.
"""
import os
import shutil
import subprocess
import sys
import tempfile
import time
from pathlib import Path

HERE = Path(__file__).resolve().parent
WORK = HERE / "_work"
ENV = {k: v for k, v in os.environ.items() if not k.startswith("STEPUP_")}
ENV.update(
    PATH="/venv/bin:" + os.environ.get("PATH", ""),
    PYTHONPATH="/tmp/hunt_C",
    PYTHONUNBUFFERED="yes",
    COLUMNS="100",
)


def sh(cmd, cwd, check=True, timeout=120):
    """Run a shell command in `cwd` with the StepUp environment, return CompletedProcess."""
    return subprocess.run(
        cmd, shell=True, cwd=cwd, env=ENV, check=check, timeout=timeout,
        stdout=subprocess.PIPE, stderr=subprocess.STDOUT, text=True,
    )


def write(root, rel, text, exe=False):
    path = Path(root) / rel
    path.parent.mkdir(parents=True, exist_ok=True)
    path.write_text(text)
    if exe:
        path.chmod(0o755)


def new_root(prefix):
    WORK.mkdir(exist_ok=True)
    return tempfile.mkdtemp(prefix=prefix, dir=WORK)


class WatchingDirector:
    """`stepup build -w` in the background, driven with the `stepup` CLI like tests/examples."""

    def __init__(self, root, jobs=2):
        self.root = root
        self.log = open(os.path.join(root, ".director_stdout.txt"), "w")
        self.proc = subprocess.Popen(
            f"stepup build -j {jobs} -w", shell=True, cwd=root, env=ENV,
            stdout=self.log, stderr=subprocess.STDOUT,
        )

    def wait(self):
        return sh("stepup wait", self.root, check=False)

    def rebuild(self, settle=1.0):
        # Give inotify and the watcher ample time to deliver and record the events.
        time.sleep(settle)
        r1 = sh("stepup rebuild", self.root, check=False)
        r2 = sh("stepup wait", self.root, check=False)
        return r1.returncode == 0 and r2.returncode == 0

    def join(self):
        sh("stepup join", self.root, check=False)
        try:
            rc = self.proc.wait(timeout=30)
        except subprocess.TimeoutExpired:
            self.proc.kill()
            rc = self.proc.wait()
        self.log.close()
        return rc

    def stdout(self):
        return Path(self.root, ".director_stdout.txt").read_text()


def restart_build(root, jobs=2):
    """A plain `stepup build` (no watch): what a restart does on the current tree."""
    return sh(f"stepup build -j {jobs}", root, check=False)


def read(root, rel):
    path = Path(root) / rel
    return path.read_text() if path.is_file() else "<absent>"


PLAN = """#!/usr/bin/env python3
from stepup.core.api import glob, static, step
static("data/")
paths = sorted(str(p) for p in glob("{pattern}").files())
inp = [p for p in paths if not p.endswith("/")]
step("echo " + " ".join(paths) + " > out.txt", inp=inp, out="out.txt", shell=True)
"""


def setup(root, pattern):
    write(root, "plan.py", PLAN.format(pattern=pattern), exe=True)
    write(root, "data/a/x.txt", "a\n")


def mutate(root):
    # A new subdirectory with a file that matches the pattern (and is itself a match of `data/*/`).
    write(root, "data/b/x.txt", "b\n")


def run_case(pattern):
    # Watch mode: build, mutate while watching, rebuild.
    wroot = new_root("watch_")
    setup(wroot, pattern)
    director = WatchingDirector(wroot)
    director.wait()
    mutate(wroot)
    director.rebuild()
    wrc = director.join()
    # Restart: build, stop, same mutation, start again.
    rroot = new_root("restart_")
    setup(rroot, pattern)
    restart_build(rroot)
    mutate(rroot)
    rrc = restart_build(rroot).returncode
    wout, rout = read(wroot, "out.txt"), read(rroot, "out.txt")
    print(f"pattern {pattern!r}:")
    print(f"  watch-mode rebuild: rc={wrc} out.txt={wout!r}")
    print(f"  restart           : rc={rrc} out.txt={rout!r}")
    if (wrc, wout) != (rrc, rout):
        print("  MISMATCH: the watcher never reported data/b/x.txt (or data/b/), so ./plan.py")
        print("  was not made pending; the startup rescan_nglobs() re-globs and finds it.")
        print("  --- tail of the watching director's output")
        print("  " + "\n  ".join(director.stdout().splitlines()[-12:]))
        return False
    return True


def main():
    shutil.rmtree(WORK, ignore_errors=True)
    ok1 = run_case("data/*/x.txt")  # wildcard directory component: file in a new directory
    ok2 = run_case("data/*/")  # the new directory itself is the match
    if ok1 and ok2:
        print("OK: watch-mode rebuild and restart agree.")
        return 0
    print("DEFECT C14: a watch-mode rebuild is not equivalent to a restart.")
    return 1


if __name__ == "__main__":
    sys.exit(main())
