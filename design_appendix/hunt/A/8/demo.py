#!/usr/bin/env python3
"""An edit of a source file that belongs to a detached (recyclable) part of the graph is never
noticed: the startup rescan and the watcher both ignore detached file nodes. When the sub-plan is
added again, it is recycled and skipped, and its outputs are stale.

Run as: cd /tmp/hunt_A && PYTHONPATH=/tmp/hunt_A /venv/bin/python _found/8/demo.py

Only real `stepup build` invocations are used, on a project in a temporary directory.
"""

import asyncio
import os
import shutil
import subprocess
import sys
import tempfile

REPO = "/tmp/hunt_A"
ENV = {k: v for k, v in os.environ.items() if not k.startswith("STEPUP_")}
ENV["PATH"] = "/venv/bin:" + ENV.get("PATH", "")
ENV["PYTHONPATH"] = REPO
ENV["COLUMNS"] = "100"


def write(path, text, exe=False):
    os.makedirs(os.path.dirname(path) or ".", exist_ok=True)
    with open(path, "w") as fh:
        fh.write(text)
    if exe:
        os.chmod(path, 0o755)


def build(cwd, *args):
    proc = subprocess.run(
        ["stepup", "build", "-j", "1", *args],
        cwd=cwd,
        env=ENV,
        stdin=subprocess.DEVNULL,
        stdout=subprocess.PIPE,
        stderr=subprocess.STDOUT,
        text=True,
        timeout=120,
        check=False,
    )
    return proc.returncode, proc.stdout


def graph(cwd):
    """Return the canonical text rendering of the graph stored in cwd/.stepup/graph.db."""
    from stepup.core.sqlite3 import DBSession
    from stepup.core.workflow import Workflow

    with tempfile.TemporaryDirectory() as tmp:
        for name in os.listdir(os.path.join(cwd, ".stepup")):
            if name.startswith("graph.db"):
                shutil.copy(os.path.join(cwd, ".stepup", name), os.path.join(tmp, name))

        async def load():
            with DBSession.open(os.path.join(tmp, "graph.db")) as db:
                wf = Workflow(db, dir_queue=None)
                await wf.initialize()
                async with db:
                    return wf.format_str()

        text = asyncio.run(load())
    blocks = []
    for block in text.split("\n\n"):
        lines = [line for line in block.split("\n") if line.strip() and "digest" not in line]
        if lines:
            blocks.append("\n".join(lines))
    return "\n\n".join(sorted(blocks))


SUB_PY = """\
#!/usr/bin/env python3
from stepup.core.api import static, step
static("x.txt")
step("cp x.txt y.txt", inp="x.txt", out="y.txt")
"""

PLAN_WITH = """\
#!/usr/bin/env python3
from stepup.core.api import static, step
static("sub.py")
step("./sub.py", inp="sub.py")
"""

PLAN_WITHOUT = """\
#!/usr/bin/env python3
from stepup.core.api import static, step
static("sub.py")
"""


def main():
    with tempfile.TemporaryDirectory(prefix="hunt_A_8_") as top:
        inc = os.path.join(top, "incremental")
        ref = os.path.join(top, "scratch")

        # History.
        write(os.path.join(inc, "sub.py"), SUB_PY, exe=True)
        write(os.path.join(inc, "x.txt"), "version 1\n")
        write(os.path.join(inc, "plan.py"), PLAN_WITH, exe=True)
        rc1, out1 = build(inc)
        assert rc1 == 0, out1
        # Edit 1: the sub-plan is switched off. The cleanup is skipped in this build
        # (--no-clean here; a failing step or a build restricted to targets has the same effect),
        # so the detached sub-plan stays in the database.
        write(os.path.join(inc, "plan.py"), PLAN_WITHOUT, exe=True)
        rc2, out2 = build(inc, "--no-clean")
        assert rc2 == 0, out2
        # Edit 2: a source file changes and the sub-plan is switched on again.
        write(os.path.join(inc, "x.txt"), "version 2, longer\n")
        write(os.path.join(inc, "plan.py"), PLAN_WITH, exe=True)
        rc_inc, out_inc = build(inc)
        with open(os.path.join(inc, "y.txt")) as fh:
            y_inc = fh.read()

        # Reference: the final sources built from scratch.
        write(os.path.join(ref, "sub.py"), SUB_PY, exe=True)
        write(os.path.join(ref, "x.txt"), "version 2, longer\n")
        write(os.path.join(ref, "plan.py"), PLAN_WITH, exe=True)
        rc_ref, out_ref = build(ref)
        with open(os.path.join(ref, "y.txt")) as fh:
            y_ref = fh.read()

    print("=== incremental build after the last edits: returncode", rc_inc)
    print(out_inc)
    print("=== build from scratch of the same sources: returncode", rc_ref)
    print()
    print("y.txt after incremental build :", repr(y_inc))
    print("y.txt after build from scratch:", repr(y_ref))
    if y_inc != y_ref:
        print()
        print("DEFECT CONFIRMED (C01, stale output):")
        print(" - x.txt was edited while its node was detached; nothing rehashed it, the sub-plan")
        print("   and `cp x.txt y.txt` were recycled as SUCCEEDED, and y.txt is a copy of the old")
        print(f"   x.txt although the build returned {rc_inc}.")
        return 1
    print("No defect observed.")
    return 0


if __name__ == "__main__":
    sys.exit(main())
