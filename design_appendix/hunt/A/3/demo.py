#!/usr/bin/env python3
"""A static tree that comes back through a recycled (and skipped) step does not adopt the inputs
that were supplied while it was detached, so their consumer is blocked forever.

Run as: cd /tmp/hunt_A && PYTHONPATH=/tmp/hunt_A /venv/bin/python _found/3/demo.py

Only real `stepup build` invocations are used, on a project in a temporary directory.
"""

import asyncio
import os
import shutil
import subprocess
import sys
import tempfile

REPO = "/tmp/hunt_A"
ENV = {k: v for k, v in os.environ.items() if not k.startswith("STEPUP_")}
ENV["PATH"] = "/venv/bin:" + ENV.get("PATH", "")
ENV["PYTHONPATH"] = REPO
ENV["COLUMNS"] = "100"


def write(path, text, exe=False):
    os.makedirs(os.path.dirname(path) or ".", exist_ok=True)
    with open(path, "w") as fh:
        fh.write(text)
    if exe:
        os.chmod(path, 0o755)


def build(cwd, *args):
    proc = subprocess.run(
        ["stepup", "build", "-j", "1", *args],
        cwd=cwd,
        env=ENV,
        stdin=subprocess.DEVNULL,
        stdout=subprocess.PIPE,
        stderr=subprocess.STDOUT,
        text=True,
        timeout=120,
        check=False,
    )
    return proc.returncode, proc.stdout


def graph(cwd):
    """Return the canonical text rendering of the graph stored in cwd/.stepup/graph.db."""
    from stepup.core.sqlite3 import DBSession
    from stepup.core.workflow import Workflow

    with tempfile.TemporaryDirectory() as tmp:
        for name in os.listdir(os.path.join(cwd, ".stepup")):
            if name.startswith("graph.db"):
                shutil.copy(os.path.join(cwd, ".stepup", name), os.path.join(tmp, name))

        async def load():
            with DBSession.open(os.path.join(tmp, "graph.db")) as db:
                wf = Workflow(db, dir_queue=None)
                await wf.initialize()
                async with db:
                    return wf.format_str()

        text = asyncio.run(load())
    blocks = []
    for block in text.split("\n\n"):
        lines = [line for line in block.split("\n") if line.strip() and "digest" not in line]
        if lines:
            blocks.append("\n".join(lines))
    return "\n\n".join(sorted(blocks))


SUB_PY = """\
#!/usr/bin/env python3
from stepup.core.api import static
static("data/")
"""

PLAN1 = """\
#!/usr/bin/env python3
from stepup.core.api import static, step
static("sub.py")
step("./sub.py", inp="sub.py")
"""

# The only edit: a new step uses a file inside the static tree that sub.py declares.
PLAN2 = """\
#!/usr/bin/env python3
from stepup.core.api import static, step
static("sub.py")
step("cp data/b.txt out.txt", inp="data/b.txt", out="out.txt")
step("./sub.py", inp="sub.py")
"""


def populate(top, plan):
    write(os.path.join(top, "data/b.txt"), "b\n")
    write(os.path.join(top, "sub.py"), SUB_PY, exe=True)
    write(os.path.join(top, "plan.py"), plan, exe=True)


def main():
    with tempfile.TemporaryDirectory(prefix="hunt_A_3_") as top:
        inc = os.path.join(top, "incremental")
        ref = os.path.join(top, "scratch")

        # History: build plan 1, edit plan.py, build again (twice, to show it is permanent).
        populate(inc, PLAN1)
        rc1, out1 = build(inc)
        assert rc1 == 0, out1
        write(os.path.join(inc, "plan.py"), PLAN2, exe=True)
        rc_inc, out_inc = build(inc)
        rc_inc2, out_inc2 = build(inc)
        graph_inc = graph(inc)
        has_out_inc = os.path.isfile(os.path.join(inc, "out.txt"))

        # Reference: the final sources built from scratch.
        populate(ref, PLAN2)
        rc_ref, out_ref = build(ref)
        graph_ref = graph(ref)
        has_out_ref = os.path.isfile(os.path.join(ref, "out.txt"))

    print("=== incremental build after the edit: returncode", rc_inc)
    print(out_inc)
    print("=== the same build repeated: returncode", rc_inc2)
    print("=== build from scratch of the same sources: returncode", rc_ref)
    print(out_ref)
    print("=== graph after the incremental build")
    print(graph_inc)
    print()

    problems = []
    if rc_inc != rc_ref or rc_inc2 != rc_ref:
        problems.append(
            f"return code differs: incremental={rc_inc}, repeated={rc_inc2}, from-scratch={rc_ref}"
        )
    if has_out_inc != has_out_ref:
        problems.append(
            f"out.txt exists after incremental build: {has_out_inc}, after build from scratch: "
            f"{has_out_ref}"
        )
    if "st:data/\n" in graph_inc + "\n" and "(file:data/b.txt)" in graph_inc:
        problems.append(
            "st:data/ is attached, yet file:data/b.txt beneath it is a detached UNDECLARED node "
            "that the tree does not own"
        )
    if graph_inc != graph_ref:
        problems.append("the graph differs from the graph of a build from scratch")
    if problems:
        print("DEFECT CONFIRMED (C01 / C08):")
        for problem in problems:
            print(" -", problem)
        return 1
    print("No defect observed.")
    return 0


if __name__ == "__main__":
    sys.exit(main())
