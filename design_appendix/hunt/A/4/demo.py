#!/usr/bin/env python3
"""A stale step -> file edge left behind by a partial recycle makes a later full recycle accept
a declaration with an output that the step does not own; the output is removed from disk.

Run as: cd /tmp/hunt_A && PYTHONPATH=/tmp/hunt_A /venv/bin/python _found/4/demo.py

Only real `stepup build` invocations are used, on a project in a temporary directory.
"""

import asyncio
import os
import shutil
import subprocess
import sys
import tempfile

REPO = "/tmp/hunt_A"
ENV = {k: v for k, v in os.environ.items() if not k.startswith("STEPUP_")}
ENV["PATH"] = "/venv/bin:" + ENV.get("PATH", "")
ENV["PYTHONPATH"] = REPO
ENV["COLUMNS"] = "100"


def write(path, text, exe=False):
    os.makedirs(os.path.dirname(path) or ".", exist_ok=True)
    with open(path, "w") as fh:
        fh.write(text)
    if exe:
        os.chmod(path, 0o755)


def build(cwd, *args):
    proc = subprocess.run(
        ["stepup", "build", "-j", "1", *args],
        cwd=cwd,
        env=ENV,
        stdin=subprocess.DEVNULL,
        stdout=subprocess.PIPE,
        stderr=subprocess.STDOUT,
        text=True,
        timeout=120,
        check=False,
    )
    return proc.returncode, proc.stdout


def graph(cwd):
    """Return the canonical text rendering of the graph stored in cwd/.stepup/graph.db."""
    from stepup.core.sqlite3 import DBSession
    from stepup.core.workflow import Workflow

    with tempfile.TemporaryDirectory() as tmp:
        for name in os.listdir(os.path.join(cwd, ".stepup")):
            if name.startswith("graph.db"):
                shutil.copy(os.path.join(cwd, ".stepup", name), os.path.join(tmp, name))

        async def load():
            with DBSession.open(os.path.join(tmp, "graph.db")) as db:
                wf = Workflow(db, dir_queue=None)
                await wf.initialize()
                async with db:
                    return wf.format_str()

        text = asyncio.run(load())
    blocks = []
    for block in text.split("\n\n"):
        lines = [line for line in block.split("\n") if line.strip() and "digest" not in line]
        if lines:
            blocks.append("\n".join(lines))
    return "\n\n".join(sorted(blocks))


PLAN_AB = """\
#!/usr/bin/env python3
from stepup.core.api import step
step("echo a > a.txt; echo b > b.txt", out=["a.txt", "b.txt"], shell=True)
"""

# Same command, but b.txt is no longer declared as an output.
PLAN_A = """\
#!/usr/bin/env python3
from stepup.core.api import step
step("echo a > a.txt; echo b > b.txt", out=["a.txt"], shell=True)
"""


def outputs(top):
    return sorted(name for name in os.listdir(top) if name.endswith(".txt"))


def main():
    with tempfile.TemporaryDirectory(prefix="hunt_A_4_") as top:
        inc = os.path.join(top, "incremental")
        ref = os.path.join(top, "scratch")

        # History: three edits of plan.py, each followed by a build.
        write(os.path.join(inc, "plan.py"), PLAN_AB, exe=True)
        rc1, out1 = build(inc)
        assert rc1 == 0, out1
        write(os.path.join(inc, "plan.py"), PLAN_A, exe=True)
        # Any build that skips the cleanup keeps the detached b.txt node alive:
        # --no-clean, a failing step elsewhere, a build restricted to targets,
        # or simply another step that still uses b.txt as input.
        rc2, out2 = build(inc, "--no-clean")
        assert rc2 == 0, out2
        write(os.path.join(inc, "plan.py"), PLAN_AB, exe=True)
        rc_inc, out_inc = build(inc)
        graph_inc = graph(inc)
        files_inc = outputs(inc)

        # Reference: the final sources built from scratch.
        write(os.path.join(ref, "plan.py"), PLAN_AB, exe=True)
        rc_ref, out_ref = build(ref)
        graph_ref = graph(ref)
        files_ref = outputs(ref)

    print("=== third incremental build (plan declares out=[a.txt, b.txt] again): rc", rc_inc)
    print(out_inc)
    print("=== build from scratch of the same sources: rc", rc_ref)
    print(out_ref)
    print("=== graph after the incremental build")
    print(graph_inc)
    print()
    print("outputs on disk after incremental build :", files_inc)
    print("outputs on disk after build from scratch:", files_ref)

    problems = []
    if files_inc != files_ref:
        problems.append(
            f"declared output missing on disk: incremental={files_inc} from-scratch={files_ref} "
            f"(build return code {rc_inc})"
        )
    if "file:b.txt" not in graph_inc:
        problems.append("the plan declares b.txt as an output, but the graph has no file:b.txt")
    if graph_inc != graph_ref:
        problems.append("the graph differs from the graph of a build from scratch")
    if problems:
        print()
        print("DEFECT CONFIRMED (C01 / C08):")
        for problem in problems:
            print(" -", problem)
        return 1
    print("No defect observed.")
    return 0


if __name__ == "__main__":
    sys.exit(main())
