#!/usr/bin/env python3
"""Declarations of a recycled step that is already known to be out of date (PENDING, its script
changed) still count as current claims, so a valid plan is rejected, and stays rejected forever.

Run as: cd /tmp/hunt_A && PYTHONPATH=/tmp/hunt_A /venv/bin/python _found/5/demo.py

Only real `stepup build` invocations are used, on a project in a temporary directory.
Two variants of the same history are run: a static file that becomes a build product,
and a glob pattern that is narrowed.
"""

import asyncio
import os
import shutil
import subprocess
import sys
import tempfile

REPO = "/tmp/hunt_A"
ENV = {k: v for k, v in os.environ.items() if not k.startswith("STEPUP_")}
ENV["PATH"] = "/venv/bin:" + ENV.get("PATH", "")
ENV["PYTHONPATH"] = REPO
ENV["COLUMNS"] = "100"


def write(path, text, exe=False):
    os.makedirs(os.path.dirname(path) or ".", exist_ok=True)
    with open(path, "w") as fh:
        fh.write(text)
    if exe:
        os.chmod(path, 0o755)


def build(cwd, *args):
    proc = subprocess.run(
        ["stepup", "build", "-j", "1", *args],
        cwd=cwd,
        env=ENV,
        stdin=subprocess.DEVNULL,
        stdout=subprocess.PIPE,
        stderr=subprocess.STDOUT,
        text=True,
        timeout=120,
        check=False,
    )
    return proc.returncode, proc.stdout


def graph(cwd):
    """Return the canonical text rendering of the graph stored in cwd/.stepup/graph.db."""
    from stepup.core.sqlite3 import DBSession
    from stepup.core.workflow import Workflow

    with tempfile.TemporaryDirectory() as tmp:
        for name in os.listdir(os.path.join(cwd, ".stepup")):
            if name.startswith("graph.db"):
                shutil.copy(os.path.join(cwd, ".stepup", name), os.path.join(tmp, name))

        async def load():
            with DBSession.open(os.path.join(tmp, "graph.db")) as db:
                wf = Workflow(db, dir_queue=None)
                await wf.initialize()
                async with db:
                    return wf.format_str()

        text = asyncio.run(load())
    blocks = []
    for block in text.split("\n\n"):
        lines = [line for line in block.split("\n") if line.strip() and "digest" not in line]
        if lines:
            blocks.append("\n".join(lines))
    return "\n\n".join(sorted(blocks))


PLAN1 = """\
#!/usr/bin/env python3
from stepup.core.api import static, step
static("sub.py")
step("./sub.py", inp="sub.py")
"""

# Edit of plan.py: a new step builds o.txt.
PLAN2 = """\
#!/usr/bin/env python3
from stepup.core.api import static, step
static("sub.py")
step("./sub.py", inp="sub.py")
step("echo hi > o.txt", out="o.txt", shell=True)
"""

VARIANTS = {
    "static file becomes an output": (
        # sub.py before: declares o.txt static. After: no longer does.
        '#!/usr/bin/env python3\nfrom stepup.core.api import static\nstatic("o.txt")\n',
        "#!/usr/bin/env python3\nfrom stepup.core.api import static\n",
        {"o.txt": "hand-written\n"},
    ),
    "glob pattern is narrowed": (
        # sub.py before: glob("*.txt"). After: glob("*.md").
        '#!/usr/bin/env python3\nfrom stepup.core.api import glob\nglob("*.txt")\n',
        '#!/usr/bin/env python3\nfrom stepup.core.api import glob\nglob("*.md")\n',
        {},
    ),
}


def run_variant(name, sub_before, sub_after, extra_files):
    with tempfile.TemporaryDirectory(prefix="hunt_A_5_") as top:
        inc = os.path.join(top, "incremental")
        ref = os.path.join(top, "scratch")

        # History: build, edit sub.py and plan.py (and remove the hand-written file), build again.
        write(os.path.join(inc, "plan.py"), PLAN1, exe=True)
        write(os.path.join(inc, "sub.py"), sub_before, exe=True)
        for fn, text in extra_files.items():
            write(os.path.join(inc, fn), text)
        rc1, out1 = build(inc)
        assert rc1 == 0, out1
        write(os.path.join(inc, "plan.py"), PLAN2, exe=True)
        write(os.path.join(inc, "sub.py"), sub_after, exe=True)
        for fn in extra_files:
            os.remove(os.path.join(inc, fn))
        rc_inc, out_inc = build(inc)
        # Try again a few times: the failure does not heal.
        rcs_again = [build(inc)[0] for _ in range(2)]
        has_out_inc = os.path.isfile(os.path.join(inc, "o.txt"))

        # Reference: the final sources built from scratch.
        write(os.path.join(ref, "plan.py"), PLAN2, exe=True)
        write(os.path.join(ref, "sub.py"), sub_after, exe=True)
        rc_ref, out_ref = build(ref)
        has_out_ref = os.path.isfile(os.path.join(ref, "o.txt"))

    print(f"##### variant: {name}")
    print("=== incremental build after the edits: returncode", rc_inc)
    print("\n".join(ln for ln in out_inc.split("\n") if "│" in ln or "GraphError" in ln))
    print("=== repeated incremental builds: returncodes", rcs_again)
    print("=== build from scratch of the same sources: returncode", rc_ref)
    print("\n".join(ln for ln in out_ref.split("\n") if "│" in ln or "GraphError" in ln))
    print()
    problems = []
    if rc_inc != rc_ref or any(rc != rc_ref for rc in rcs_again):
        problems.append(
            f"[{name}] return code differs: incremental={rc_inc}, repeated={rcs_again}, "
            f"from-scratch={rc_ref}"
        )
    if has_out_inc != has_out_ref:
        problems.append(
            f"[{name}] o.txt built: incremental={has_out_inc}, from-scratch={has_out_ref}"
        )
    return problems


def main():
    problems = []
    for name, (sub_before, sub_after, extra_files) in VARIANTS.items():
        problems.extend(run_variant(name, sub_before, sub_after, extra_files))
    if problems:
        print("DEFECT CONFIRMED (C01 / C08):")
        for problem in problems:
            print(" -", problem)
        return 1
    print("No defect observed.")
    return 0


if __name__ == "__main__":
    sys.exit(main())
