#!/usr/bin/env python3
"""Changing `env_overrides` (or `shell`) of a step in plan.py leaves its output stale:
the fully recycled step keeps the SUCCEEDED state and is never hash-checked.

Run as: cd /tmp/hunt_A && PYTHONPATH=/tmp/hunt_A /venv/bin/python _found/6/demo.py

Only real `stepup build` invocations are used, on a project in a temporary directory.
"""

import asyncio
import os
import shutil
import subprocess
import sys
import tempfile

REPO = "/tmp/hunt_A"
ENV = {k: v for k, v in os.environ.items() if not k.startswith("STEPUP_")}
ENV["PATH"] = "/venv/bin:" + ENV.get("PATH", "")
ENV["PYTHONPATH"] = REPO
ENV["COLUMNS"] = "100"


def write(path, text, exe=False):
    os.makedirs(os.path.dirname(path) or ".", exist_ok=True)
    with open(path, "w") as fh:
        fh.write(text)
    if exe:
        os.chmod(path, 0o755)


def build(cwd, *args):
    proc = subprocess.run(
        ["stepup", "build", "-j", "1", *args],
        cwd=cwd,
        env=ENV,
        stdin=subprocess.DEVNULL,
        stdout=subprocess.PIPE,
        stderr=subprocess.STDOUT,
        text=True,
        timeout=120,
        check=False,
    )
    return proc.returncode, proc.stdout


def graph(cwd):
    """Return the canonical text rendering of the graph stored in cwd/.stepup/graph.db."""
    from stepup.core.sqlite3 import DBSession
    from stepup.core.workflow import Workflow

    with tempfile.TemporaryDirectory() as tmp:
        for name in os.listdir(os.path.join(cwd, ".stepup")):
            if name.startswith("graph.db"):
                shutil.copy(os.path.join(cwd, ".stepup", name), os.path.join(tmp, name))

        async def load():
            with DBSession.open(os.path.join(tmp, "graph.db")) as db:
                wf = Workflow(db, dir_queue=None)
                await wf.initialize()
                async with db:
                    return wf.format_str()

        text = asyncio.run(load())
    blocks = []
    for block in text.split("\n\n"):
        lines = [line for line in block.split("\n") if line.strip() and "digest" not in line]
        if lines:
            blocks.append("\n".join(lines))
    return "\n\n".join(sorted(blocks))


PLAN = """\
#!/usr/bin/env python3
from stepup.core.api import step
step("echo data > y.txt", shell=True, out="y.txt")
step("echo $GREETING | cat - y.txt > o.txt", shell=True, inp="y.txt", out="o.txt",
     env_overrides={"GREETING": "@GREETING@"})
"""


def main():
    with tempfile.TemporaryDirectory(prefix="hunt_A_6_") as top:
        inc = os.path.join(top, "incremental")
        ref = os.path.join(top, "scratch")

        # History: build, change the override in plan.py, build again.
        write(os.path.join(inc, "plan.py"), PLAN.replace("@GREETING@", "hello"), exe=True)
        rc1, out1 = build(inc)
        assert rc1 == 0, out1
        write(os.path.join(inc, "plan.py"), PLAN.replace("@GREETING@", "bye"), exe=True)
        rc_inc, out_inc = build(inc)
        rc_inc2, _ = build(inc)
        graph_inc = graph(inc)
        with open(os.path.join(inc, "o.txt")) as fh:
            content_inc = fh.read()

        # Reference: the final sources built from scratch.
        write(os.path.join(ref, "plan.py"), PLAN.replace("@GREETING@", "bye"), exe=True)
        rc_ref, out_ref = build(ref)
        with open(os.path.join(ref, "o.txt")) as fh:
            content_ref = fh.read()

    print("=== incremental build after the edit: returncode", rc_inc)
    print(out_inc)
    print("=== build from scratch of the same sources: returncode", rc_ref)
    print(out_ref)
    block = [b for b in graph_inc.split("\n\n") if b.startswith("step:echo $GREETING")][0]
    print("=== the step in the graph after the incremental build")
    print(block)
    print()
    print("o.txt after incremental build :", repr(content_inc))
    print("o.txt after build from scratch:", repr(content_ref))

    if content_inc != content_ref:
        print()
        print("DEFECT CONFIRMED (C01, stale output):")
        print(" - the graph records env_overrides GREETING=bye for a SUCCEEDED step, but o.txt")
        print("   still holds the result of GREETING=hello; repeating the build gives rc", rc_inc2)
        return 1
    print("No defect observed.")
    return 0


if __name__ == "__main__":
    sys.exit(main())
