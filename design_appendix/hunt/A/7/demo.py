#!/usr/bin/env python3
"""The stale VOLATILE state of a detached file node (the memory of a step that left the plan)
rejects a valid input declaration, and the project stays broken on every further build.

Run as: cd /tmp/hunt_A && PYTHONPATH=/tmp/hunt_A /venv/bin/python _found/7/demo.py

Only real `stepup build` invocations are used, on a project in a temporary directory.
"""

import asyncio
import os
import shutil
import subprocess
import sys
import tempfile

REPO = "/tmp/hunt_A"
ENV = {k: v for k, v in os.environ.items() if not k.startswith("STEPUP_")}
ENV["PATH"] = "/venv/bin:" + ENV.get("PATH", "")
ENV["PYTHONPATH"] = REPO
ENV["COLUMNS"] = "100"


def write(path, text, exe=False):
    os.makedirs(os.path.dirname(path) or ".", exist_ok=True)
    with open(path, "w") as fh:
        fh.write(text)
    if exe:
        os.chmod(path, 0o755)


def build(cwd, *args):
    proc = subprocess.run(
        ["stepup", "build", "-j", "1", *args],
        cwd=cwd,
        env=ENV,
        stdin=subprocess.DEVNULL,
        stdout=subprocess.PIPE,
        stderr=subprocess.STDOUT,
        text=True,
        timeout=120,
        check=False,
    )
    return proc.returncode, proc.stdout


def graph(cwd):
    """Return the canonical text rendering of the graph stored in cwd/.stepup/graph.db."""
    from stepup.core.sqlite3 import DBSession
    from stepup.core.workflow import Workflow

    with tempfile.TemporaryDirectory() as tmp:
        for name in os.listdir(os.path.join(cwd, ".stepup")):
            if name.startswith("graph.db"):
                shutil.copy(os.path.join(cwd, ".stepup", name), os.path.join(tmp, name))

        async def load():
            with DBSession.open(os.path.join(tmp, "graph.db")) as db:
                wf = Workflow(db, dir_queue=None)
                await wf.initialize()
                async with db:
                    return wf.format_str()

        text = asyncio.run(load())
    blocks = []
    for block in text.split("\n\n"):
        lines = [line for line in block.split("\n") if line.strip() and "digest" not in line]
        if lines:
            blocks.append("\n".join(lines))
    return "\n\n".join(sorted(blocks))


PLAN1 = """\
#!/usr/bin/env python3
from stepup.core.api import step
step("echo log > v.log", shell=True, vol="v.log")
"""

# The step with the volatile output is gone. v.log is kept as a hand-maintained static file.
PLAN2 = """\
#!/usr/bin/env python3
from stepup.core.api import step, static
step("cp v.log copy.txt", inp="v.log", out="copy.txt")
static("v.log")
"""


def main():
    with tempfile.TemporaryDirectory(prefix="hunt_A_7_") as top:
        inc = os.path.join(top, "incremental")
        ref = os.path.join(top, "scratch")

        # History: build, edit plan.py, build again (three times).
        write(os.path.join(inc, "plan.py"), PLAN1, exe=True)
        rc1, out1 = build(inc)
        assert rc1 == 0, out1
        assert os.path.isfile(os.path.join(inc, "v.log"))
        write(os.path.join(inc, "plan.py"), PLAN2, exe=True)
        rc_inc, out_inc = build(inc)
        rcs_again = [build(inc)[0] for _ in range(2)]
        has_copy_inc = os.path.isfile(os.path.join(inc, "copy.txt"))

        # Reference: the final sources built from scratch.
        write(os.path.join(ref, "plan.py"), PLAN2, exe=True)
        write(os.path.join(ref, "v.log"), "log\n")
        rc_ref, out_ref = build(ref)
        has_copy_ref = os.path.isfile(os.path.join(ref, "copy.txt"))

    print("=== incremental build after the edit: returncode", rc_inc)
    print("\n".join(ln for ln in out_inc.split("\n") if "│" in ln or "GraphError" in ln))
    print("=== repeated incremental builds: returncodes", rcs_again)
    print("=== build from scratch of the same sources: returncode", rc_ref)
    print("\n".join(ln for ln in out_ref.split("\n") if "│" in ln or "GraphError" in ln))
    print()

    problems = []
    if rc_inc != rc_ref or any(rc != rc_ref for rc in rcs_again):
        problems.append(
            f"return code differs: incremental={rc_inc}, repeated={rcs_again}, "
            f"from-scratch={rc_ref}"
        )
    if has_copy_inc != has_copy_ref:
        problems.append(f"copy.txt built: incremental={has_copy_inc}, from-scratch={has_copy_ref}")
    if problems:
        print("DEFECT CONFIRMED (C08 / C01):")
        for problem in problems:
            print(" -", problem)
        return 1
    print("No defect observed.")
    return 0


if __name__ == "__main__":
    sys.exit(main())
