#!/usr/bin/env python3
"""Nested static trees are accepted when the outer tree belongs to a detached step
that is recycled and skipped afterwards.

Run as: cd /tmp/hunt_A && PYTHONPATH=/tmp/hunt_A /venv/bin/python _found/1/demo.py

Only real `stepup build` invocations are used, on a project in a temporary directory.
"""

import asyncio
import os
import shutil
import subprocess
import sys
import tempfile

REPO = "/tmp/hunt_A"
ENV = {k: v for k, v in os.environ.items() if not k.startswith("STEPUP_")}
ENV["PATH"] = "/venv/bin:" + ENV.get("PATH", "")
ENV["PYTHONPATH"] = REPO
ENV["COLUMNS"] = "100"


def write(path, text, exe=False):
    os.makedirs(os.path.dirname(path) or ".", exist_ok=True)
    with open(path, "w") as fh:
        fh.write(text)
    if exe:
        os.chmod(path, 0o755)


def build(cwd, *args):
    proc = subprocess.run(
        ["stepup", "build", "-j", "1", *args],
        cwd=cwd,
        env=ENV,
        stdin=subprocess.DEVNULL,
        stdout=subprocess.PIPE,
        stderr=subprocess.STDOUT,
        text=True,
        timeout=120,
        check=False,
    )
    return proc.returncode, proc.stdout


def graph(cwd):
    """Return the canonical text rendering of the graph stored in cwd/.stepup/graph.db."""
    from stepup.core.sqlite3 import DBSession
    from stepup.core.workflow import Workflow

    with tempfile.TemporaryDirectory() as tmp:
        for name in os.listdir(os.path.join(cwd, ".stepup")):
            if name.startswith("graph.db"):
                shutil.copy(os.path.join(cwd, ".stepup", name), os.path.join(tmp, name))

        async def load():
            with DBSession.open(os.path.join(tmp, "graph.db")) as db:
                wf = Workflow(db, dir_queue=None)
                await wf.initialize()
                async with db:
                    return wf.format_str()

        text = asyncio.run(load())
    blocks = []
    for block in text.split("\n\n"):
        lines = [line for line in block.split("\n") if line.strip() and "digest" not in line]
        if lines:
            blocks.append("\n".join(lines))
    return "\n\n".join(sorted(blocks))


SUB_PY = """\
#!/usr/bin/env python3
from stepup.core.api import static
static("data/")
"""

PLAN1 = """\
#!/usr/bin/env python3
from stepup.core.api import static, step
static("sub.py")
step("./sub.py", inp="sub.py")
"""

# The only edit: plan.py now also declares a static tree inside the one sub.py declares.
PLAN2 = """\
#!/usr/bin/env python3
from stepup.core.api import static, step
static("data/inner/")
static("sub.py")
step("./sub.py", inp="sub.py")
"""


def populate(top, plan):
    write(os.path.join(top, "data/a.txt"), "a\n")
    write(os.path.join(top, "data/inner/b.txt"), "b\n")
    write(os.path.join(top, "sub.py"), SUB_PY, exe=True)
    write(os.path.join(top, "plan.py"), plan, exe=True)


def main():
    with tempfile.TemporaryDirectory(prefix="hunt_A_1_") as top:
        inc = os.path.join(top, "incremental")
        ref = os.path.join(top, "scratch")

        # History: build plan 1, edit plan.py, build again.
        populate(inc, PLAN1)
        rc1, out1 = build(inc)
        assert rc1 == 0, out1
        write(os.path.join(inc, "plan.py"), PLAN2, exe=True)
        rc_inc, out_inc = build(inc)
        graph_inc = graph(inc)

        # Reference: the final sources built from scratch.
        populate(ref, PLAN2)
        rc_ref, out_ref = build(ref)
        graph_ref = graph(ref)

    print("=== incremental build after the edit: returncode", rc_inc)
    print(out_inc)
    print("=== build from scratch of the same sources: returncode", rc_ref)
    print("\n".join(line for line in out_ref.split("\n") if "GraphError" in line or "│" in line))

    trees = [b.split("\n")[0] for b in graph_inc.split("\n\n") if b.startswith("st:")]
    print("=== attached static trees after the incremental build:", trees)

    problems = []
    if rc_inc != rc_ref:
        problems.append(
            f"return code differs: incremental={rc_inc} from-scratch={rc_ref} "
            "(the plan nests two static trees and must be rejected)"
        )
    if "st:data/" in trees and "st:data/inner/" in trees:
        problems.append("two nested static trees are attached at the same time: " + ", ".join(trees))
    if graph_inc != graph_ref:
        problems.append("the graph differs from the graph of a build from scratch")
    if problems:
        print()
        print("DEFECT CONFIRMED (C08 / C01):")
        for problem in problems:
            print(" -", problem)
        return 1
    print("No defect observed.")
    return 0


if __name__ == "__main__":
    sys.exit(main())
