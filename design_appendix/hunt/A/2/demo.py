#!/usr/bin/env python3
"""A step keeps the SUCCEEDED state although the step that built its input left the plan.

Run as: cd /tmp/hunt_A && PYTHONPATH=/tmp/hunt_A /venv/bin/python _found/2/demo.py

Only real `stepup build` invocations are used, on a project in a temporary directory.
"""

import asyncio
import os
import shutil
import subprocess
import sys
import tempfile

REPO = "/tmp/hunt_A"
ENV = {k: v for k, v in os.environ.items() if not k.startswith("STEPUP_")}
ENV["PATH"] = "/venv/bin:" + ENV.get("PATH", "")
ENV["PYTHONPATH"] = REPO
ENV["COLUMNS"] = "100"


def write(path, text, exe=False):
    os.makedirs(os.path.dirname(path) or ".", exist_ok=True)
    with open(path, "w") as fh:
        fh.write(text)
    if exe:
        os.chmod(path, 0o755)


def build(cwd, *args):
    proc = subprocess.run(
        ["stepup", "build", "-j", "1", *args],
        cwd=cwd,
        env=ENV,
        stdin=subprocess.DEVNULL,
        stdout=subprocess.PIPE,
        stderr=subprocess.STDOUT,
        text=True,
        timeout=120,
        check=False,
    )
    return proc.returncode, proc.stdout


def graph(cwd):
    """Return the canonical text rendering of the graph stored in cwd/.stepup/graph.db."""
    from stepup.core.sqlite3 import DBSession
    from stepup.core.workflow import Workflow

    with tempfile.TemporaryDirectory() as tmp:
        for name in os.listdir(os.path.join(cwd, ".stepup")):
            if name.startswith("graph.db"):
                shutil.copy(os.path.join(cwd, ".stepup", name), os.path.join(tmp, name))

        async def load():
            with DBSession.open(os.path.join(tmp, "graph.db")) as db:
                wf = Workflow(db, dir_queue=None)
                await wf.initialize()
                async with db:
                    return wf.format_str()

        text = asyncio.run(load())
    blocks = []
    for block in text.split("\n\n"):
        lines = [line for line in block.split("\n") if line.strip() and "digest" not in line]
        if lines:
            blocks.append("\n".join(lines))
    return "\n\n".join(sorted(blocks))


PLAN1 = """\
#!/usr/bin/env python3
from stepup.core.api import step
step("echo hi > y.txt", out="y.txt", shell=True)
step("cp y.txt z.txt", inp="y.txt", out="z.txt")
"""

# The only edit: the producer of y.txt is dropped from the plan.
PLAN2 = """\
#!/usr/bin/env python3
from stepup.core.api import step
step("cp y.txt z.txt", inp="y.txt", out="z.txt")
"""


def main():
    with tempfile.TemporaryDirectory(prefix="hunt_A_2_") as top:
        inc = os.path.join(top, "incremental")
        ref = os.path.join(top, "scratch")

        # History: build plan 1, edit plan.py, build again (twice, to show it is permanent).
        write(os.path.join(inc, "plan.py"), PLAN1, exe=True)
        rc1, out1 = build(inc)
        assert rc1 == 0, out1
        write(os.path.join(inc, "plan.py"), PLAN2, exe=True)
        rc_inc, out_inc = build(inc)
        rc_inc2, _ = build(inc)
        graph_inc = graph(inc)
        files_inc = sorted(name for name in os.listdir(inc) if not name.startswith("."))

        # Reference: the final sources built from scratch.
        write(os.path.join(ref, "plan.py"), PLAN2, exe=True)
        rc_ref, out_ref = build(ref)
        graph_ref = graph(ref)
        files_ref = sorted(name for name in os.listdir(ref) if not name.startswith("."))

    print("=== incremental build after the edit: returncode", rc_inc)
    print(out_inc)
    print("=== build from scratch of the same sources: returncode", rc_ref)
    print(out_ref)
    print("=== graph after the incremental build")
    print(graph_inc)
    print()
    print("=== graph after the build from scratch")
    print(graph_ref)
    print()
    print("files after incremental build :", files_inc)
    print("files after build from scratch:", files_ref)

    problems = []
    if rc_inc != rc_ref:
        problems.append(
            f"return code differs: incremental={rc_inc} (and {rc_inc2} when repeated), "
            f"from-scratch={rc_ref} (16 = a step remained PENDING)"
        )
    block = [b for b in graph_inc.split("\n\n") if b.startswith("step:cp y.txt z.txt")][0]
    if "state = SUCCEEDED" in block and "(file:y.txt)" in block:
        problems.append(
            "step:cp y.txt z.txt is attached and SUCCEEDED while its declared input y.txt is "
            "detached, i.e. nothing in the plan declares or builds it"
        )
    if files_inc != files_ref:
        problems.append(f"files on disk differ: {files_inc} versus {files_ref}")
    if graph_inc != graph_ref:
        problems.append("the graph differs from the graph of a build from scratch")
    if problems:
        print()
        print("DEFECT CONFIRMED (C01 / C09):")
        for problem in problems:
            print(" -", problem)
        return 1
    print("No defect observed.")
    return 0


if __name__ == "__main__":
    sys.exit(main())
