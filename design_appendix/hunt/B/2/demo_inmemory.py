#!/usr/bin/env python3
"""Timing-free replay of defect 2 on an in-memory workflow.

Run as:

    cd /tmp/hunt_B && PYTHONPATH=/tmp/hunt_B /venv/bin/python _found/2/demo_inmemory.py [--fix]

Only public methods are used, in the order in which director, scheduler and executor call
them for the project of demo.py with `-j 2`:

    Workflow.define_step / declare_static_files / amend_step / update_file_hashes,
    Scheduler.pop_next_job, Step.reset_for_rerun / delete_hash / set_state / mark_completed.

With `--fix`, the trigger sketched in README.md is installed first (in the database only,
no file of stepup/core is touched), to show that it removes the lost wake-up.
Exits 1 when S ends up parked although its dynamic input is available.
"""

import asyncio
import sys

from stepup.core.enums import FileState, HashUpdateCause, Need, StepState
from stepup.core.file import File
from stepup.core.hash import StepHash
from stepup.core.scheduler import Scheduler
from stepup.core.sqlite3 import DBSession
from stepup.core.step import Step
from stepup.core.workflow import Workflow

sys.path.insert(0, "/tmp/hunt_B/tests")
from conftest import amend_step, declare_static, fake_hash  # noqa: E402

FIX_TRIGGER = """
CREATE TRIGGER IF NOT EXISTS step_node_clear_deferred_reattached
AFTER UPDATE OF detached ON node
WHEN OLD.detached AND NOT NEW.detached
BEGIN
    UPDATE step SET deferred = 0
    WHERE deferred AND node IN (SELECT sink FROM dependency WHERE source = NEW.i);
END;
"""


def step_hash(tag: str) -> StepHash:
    return StepHash(tag.encode().ljust(32, b"i"), None, tag.encode().ljust(32, b"o"))


async def pop(sched, label):
    job = await sched.pop_next_job()
    assert job is not None, f"expected {label} to be dispatched"
    assert job.step.label == label, (job.step.label, label)
    return job


async def check(sched, db, label):
    """Dispatch a hash check that fails: Executor.try_skip_job -> _reset_step_to_pending."""
    job = await pop(sched, label)
    assert job.step_hash is not None
    async with db:
        job.step.reset_for_rerun()
        job.step.delete_hash()
        job.step.set_state(StepState.PENDING)
    sched.record_job_completed(job)


async def run_or_check(sched, db, label):
    """Dispatch a step for execution: Executor.execute_job starts with reset_for_rerun."""
    job = await pop(sched, label)
    assert job.step_hash is None
    async with db:
        job.step.reset_for_rerun()
    return job


async def main():
    with DBSession.open(":memory:") as db:
        wf = Workflow(db, dir_queue=None)
        await wf.initialize()
        sched = Scheduler(wf, db=db)
        await sched.initialize(None)
        if "--fix" in sys.argv:
            async with db:
                db.execute(FIX_TRIGGER)

        # ---------------- build 1 ----------------
        async with db:
            declare_static(wf, wf.root, ["plan.py"])
            wf.define_step(wf.root, "./plan.py", inp_paths=["plan.py"], need=Need.PLAN, _safe=True)
        job_x = await run_or_check(sched, db, "./plan.py")
        async with db:
            declare_static(wf, job_x.step, ["p.py", "s.py", "cfg.txt", "data.txt"])
            wf.define_step(job_x.step, "./p.py", inp_paths=["p.py", "cfg.txt"], need=Need.PLAN)
            wf.define_step(
                job_x.step, "./s.py", inp_paths=["s.py", "data.txt"], out_paths=["s_out.txt"]
            )
            job_x.step.mark_completed(step_hash("x"), False)
        sched.record_job_completed(job_x)

        job_p = await run_or_check(sched, db, "./p.py")
        job_s = await run_or_check(sched, db, "./s.py")
        # S amends h.txt before anything declares it: it defers.
        async with db:
            unavailable, _, _ = amend_step(wf, job_s.step, inp_paths=["h.txt"])
            assert unavailable == {"h.txt"}
            job_s.step.mark_completed(None, True)
        sched.record_job_completed(job_s)
        # P declares O and succeeds.
        async with db:
            wf.define_step(job_p.step, "make-h", out_paths=["h.txt"])
            job_p.step.mark_completed(step_hash("p"), False)
        sched.record_job_completed(job_p)
        # O runs and builds h.txt, which wakes up S (the intact wake-up path).
        job_o = await run_or_check(sched, db, "make-h")
        async with db:
            wf.update_file_hashes({"h.txt": fake_hash("h.txt")}, cause=HashUpdateCause.SUCCEEDED)
            job_o.step.mark_completed(step_hash("o"), False)
        sched.record_job_completed(job_o)
        job_s = await run_or_check(sched, db, "./s.py")
        async with db:
            unavailable, _, _ = amend_step(wf, job_s.step, inp_paths=["h.txt"])
            assert not unavailable
            wf.update_file_hashes(
                {"s_out.txt": fake_hash("s_out.txt")}, cause=HashUpdateCause.SUCCEEDED
            )
            job_s.step.mark_completed(step_hash("s"), False)
        sched.record_job_completed(job_s)
        assert await sched.pop_next_job() is None
        await sched.build_completed()
        print("build 1 done: all steps SUCCEEDED")

        # ---------------- build 2: cfg.txt and data.txt were edited ----------------
        async with db:
            wf.update_file_hashes(
                {"cfg.txt": fake_hash("cfg.txt:2"), "data.txt": fake_hash("data.txt:2")},
                cause=HashUpdateCause.EXTERNAL,
            )
        # P and S are hash-checked (checks go first) and neither can be skipped.
        # The failed check of P already detaches O and h.txt.
        await check(sched, db, "./p.py")
        await check(sched, db, "./s.py")
        # Both run again, S while p.py is still busy.
        job_p = await run_or_check(sched, db, "./p.py")
        job_s = await run_or_check(sched, db, "./s.py")
        async with db:
            h = wf.find(File, "h.txt")
            print(f"while p.py runs: h.txt is {h.get_state().name}, detached={h.is_detached()}")
            unavailable, _, _ = amend_step(wf, job_s.step, inp_paths=["h.txt"])
            assert unavailable == {"h.txt"}
            job_s.step.mark_completed(None, True)
        sched.record_job_completed(job_s)
        # p.py finally declares O again, unchanged: O and h.txt are recycled.
        async with db:
            wf.define_step(job_p.step, "make-h", out_paths=["h.txt"])
            job_p.step.mark_completed(step_hash("p2"), False)
        sched.record_job_completed(job_p)

        job = await sched.pop_next_job()
        async with db:
            h = wf.find(File, "h.txt")
            s = wf.find(Step, "./s.py")
            o = wf.find(Step, "make-h")
            deferred = db.execute("SELECT deferred FROM step WHERE node = ?", (s.i,)).fetchone()[0]
            print(
                f"after p.py: make-h is {o.get_state().name}, h.txt is {h.get_state().name}, "
                f"detached={h.is_detached()}; ./s.py is {s.get_state().name}, deferred={deferred}, "
                f"has_unavailable_dynamic_input()={s.has_unavailable_dynamic_input()}"
            )
            available = h.get_state() == FileState.BUILT and not h.is_detached()
        if job is None:
            if available and deferred:
                print("DEFECT (C10): nothing is dispatched and the build phase ends,")
                print("while ./s.py is parked as deferred on an input that is attached and BUILT.")
                return 1
            print("Nothing dispatched, but not for the expected reason.")
            return 2
        print(f"OK: {job.step.label} is dispatched again.")
        return 0


if __name__ == "__main__":
    sys.exit(asyncio.run(main()))
