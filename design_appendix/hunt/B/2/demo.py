#!/usr/bin/env python3
"""Lost wake-up: a step parked as `deferred` on a detached dynamic input is never woken up
when the producer of that input is recycled back into the graph.

Run as:

    cd /tmp/hunt_B && PYTHONPATH=/tmp/hunt_B /venv/bin/python _found/2/demo.py

The demo uses nothing but the real `stepup build -j 2` command line in a temporary directory,
so every call into the director happens in the order of a real build.

Project:

    plan.py   static("p.py", "s.py", "cfg.txt", "data.txt")
              plan("./p.py", inp="cfg.txt")                        # P, a nested plan
              run("./s.py", inp="data.txt", out="s_out.txt")       # S
    p.py      time.sleep(2)   # stands for slow imports or a slow computation in the plan
              step("echo hello > h.txt", out="h.txt", shell=True)  # O, produces h.txt
    s.py      amend(inp="h.txt")                                   # dynamic input of S
              writes s_out.txt from h.txt and data.txt

History:

1. `stepup build -j 2` builds everything (s_out.txt == "hello\nA\n").
2. The user edits cfg.txt (input of the nested plan P) and data.txt (input of S).
3. `stepup build -j 2`:
   - P and S are dispatched together.
   - P is rerun: `Step.reset_for_rerun` detaches O and its output h.txt, then p.py sleeps.
   - S reaches amend(inp="h.txt") while h.txt is detached -> "unavailable" -> S defers.
     `Step.mark_completed` parks it with deferred=True because
     `has_unavailable_dynamic_input()` counts the detached input.
   - p.py declares O again, unchanged: `Trellis.try_recycle` reattaches O (SUCCEEDED,
     hash intact) together with h.txt (BUILT). Nothing calls `mark_step_pending(S)`.
   - The build phase ends with S PENDING and deferred, although h.txt is attached and BUILT.

Exits 1 when the defect is observed, 0 when S is rebuilt (s_out.txt == "hello\nB\n").
"""

import os
import sqlite3
import subprocess
import sys
import tempfile

FILES = {
    "plan.py": """\
#!/usr/bin/env python3
from stepup.core.api import static, plan, run
static("p.py", "s.py", "cfg.txt", "data.txt")
plan("./p.py", inp="cfg.txt")
run("./s.py", inp="data.txt", out="s_out.txt")
""",
    "p.py": """\
#!/usr/bin/env python3
import time
from stepup.core.api import step
time.sleep(2)
step("echo hello > h.txt", out="h.txt", shell=True)
""",
    "s.py": """\
#!/usr/bin/env python3
from stepup.core.api import amend
amend(inp="h.txt")
with open("h.txt") as fh:
    hello = fh.read()
with open("data.txt") as fh:
    data = fh.read()
with open("s_out.txt", "w") as fh:
    fh.write(hello + data)
""",
}

STATE_NAMES = {21: "PENDING", 22: "RUNNING", 23: "SUCCEEDED", 24: "FAILED", 25: "CHECKING"}
FILE_STATE_NAMES = {
    11: "UNDECLARED",
    12: "UNCONFIRMED",
    13: "MISSING",
    14: "CONFIRMED",
    15: "PLANNED",
    16: "BUILT",
    17: "OUTDATED",
    18: "VOLATILE",
}


def write(path, content, executable=False):
    with open(path, "w") as fh:
        fh.write(content)
    if executable:
        os.chmod(path, 0o755)


def build(workdir, env):
    cp = subprocess.run(
        ["stepup", "build", "-j", "2", "--no-progress"],
        cwd=workdir,
        env=env,
        stdin=subprocess.DEVNULL,
        stdout=subprocess.PIPE,
        stderr=subprocess.STDOUT,
        text=True,
        timeout=300,
        check=False,
    )
    return cp.returncode, cp.stdout


def inspect(workdir):
    con = sqlite3.connect(os.path.join(workdir, ".stepup", "graph.db"))
    steps = list(
        con.execute(
            "SELECT node.label, step.state, step.deferred, step.defer_count, step._safe, "
            "step._ready, node.detached FROM step JOIN node ON node.i = step.node ORDER BY node.i"
        )
    )
    # The dynamic inputs of S and whether they are available.
    dyn = list(
        con.execute(
            "SELECT snode.label, fnode.label, file.state, fnode.detached FROM dependency "
            "JOIN dynamic_dep ON dynamic_dep.i = dependency.i "
            "JOIN node AS fnode ON fnode.i = dependency.source "
            "JOIN file ON file.node = fnode.i "
            "JOIN node AS snode ON snode.i = dependency.sink"
        )
    )
    con.close()
    return steps, dyn


def main():
    env = dict(os.environ)
    for name in list(env):
        if name.startswith("STEPUP_"):
            del env[name]
    env["PATH"] = "/venv/bin" + os.pathsep + env.get("PATH", "")
    env["PYTHONPATH"] = "/tmp/hunt_B"

    with tempfile.TemporaryDirectory(prefix="hunt_B_demo2_") as workdir:
        env["HOME"] = workdir
        for relpath, content in FILES.items():
            write(os.path.join(workdir, relpath), content, True)
        write(os.path.join(workdir, "cfg.txt"), "1\n")
        write(os.path.join(workdir, "data.txt"), "A\n")
        out = os.path.join(workdir, "s_out.txt")

        rc1, stdout1 = build(workdir, env)
        if rc1 != 0 or not os.path.isfile(out) or open(out).read() != "hello\nA\n":
            print(stdout1)
            print(f"Unexpected: the first build did not succeed (rc={rc1}).")
            return 2

        # The user edits an input of the nested plan and an input of S.
        write(os.path.join(workdir, "cfg.txt"), "2\n")
        write(os.path.join(workdir, "data.txt"), "B\n")

        rc2, stdout2 = build(workdir, env)
        content2 = open(out).read() if os.path.isfile(out) else None
        steps, dyn = inspect(workdir)

        # A third build without any change: does a restart repair it?
        rc3, _ = build(workdir, env)
        content3 = open(out).read() if os.path.isfile(out) else None

        print("=== output of the second build ===")
        print(stdout2)
        print("=== steps after the second build ===")
        print("state | deferred | defer_count | _safe | _ready | detached | label")
        parked = []
        for label, state, deferred, defer_count, safe, ready, detached in steps:
            print(
                f"{STATE_NAMES[state]:9s} | {deferred} | {defer_count} | {safe} | {ready} "
                f"| {detached} | {label}"
            )
            if state == 21 and deferred and not detached:
                parked.append(label)
        print("=== dynamic inputs after the second build ===")
        all_available = True
        for slabel, flabel, fstate, fdetached in dyn:
            print(f"{slabel}  <-  {flabel}: {FILE_STATE_NAMES[fstate]}, detached={fdetached}")
            if fdetached or fstate not in (14, 16):
                all_available = False
        print()
        print(f"second build: returncode={rc2} s_out.txt={content2!r}")
        print(f"third build (nothing changed in between): returncode={rc3} s_out.txt={content3!r}")
        print()

        if content2 != "hello\nB\n":
            if parked and all_available:
                print("DEFECT (C10): the build phase ended with a step parked as deferred,")
                print("although every dynamic input it waits for is attached and BUILT/CONFIRMED:")
                for label in parked:
                    print(f"  {label!r}")
                print("Nothing cleared `deferred` when the producer of h.txt was recycled.")
                return 1
            print("s_out.txt was not rebuilt, but not in the way this demo expects.")
            return 2
        print("OK: S was rebuilt.")
        return 0


if __name__ == "__main__":
    sys.exit(main())
