#!/usr/bin/env python3
"""Lost wake-up: a PENDING step below recycled nested plans is never dispatched (with -j 1).

Run as:

    cd /tmp/hunt_B && PYTHONPATH=/tmp/hunt_B /venv/bin/python _found/1/demo.py

The demo uses nothing but the real `stepup build` command line in a temporary directory,
so every call into the director happens in the order of a real build.

Project (the top-level plan declares all static files, the nested plans only define steps):

    plan.py          static("a/plan.py", "a/b/plan.py", "a/b/c/plan.py", "a/b/c/inp.txt")
                     plan("./plan.py", workdir="a")
    a/plan.py        plan("./plan.py", workdir="b")
    a/b/plan.py      plan("./plan.py", workdir="c")
    a/b/c/plan.py    copy("inp.txt", "out.txt")

History:

1. `stepup build -j 1`  builds everything (a/b/c/out.txt == "a").
2. The user appends a comment to a/plan.py (the plan itself is unchanged)
   and edits a/b/c/inp.txt ("b").
3. `stepup build -j 1`  must run the copy step again (a/b/c/out.txt == "b").

With the unchanged code the second build ends with the copy step still PENDING
(return code 16 = PENDING), although it is needed, attached, not deferred,
all its inputs are available and all its creators have SUCCEEDED and hold nothing.
A third `stepup build -j 1` without any further change does not repair it.

Exits 1 when the defect is observed, 0 when the copy step is rebuilt.
"""

import os
import sqlite3
import subprocess
import sys
import tempfile

PLANS = {
    "plan.py": """\
#!/usr/bin/env python3
from stepup.core.api import static, plan
static("a/plan.py", "a/b/plan.py", "a/b/c/plan.py", "a/b/c/inp.txt")
plan("./plan.py", workdir="a")
""",
    "a/plan.py": """\
#!/usr/bin/env python3
from stepup.core.api import plan
plan("./plan.py", workdir="b")
""",
    "a/b/plan.py": """\
#!/usr/bin/env python3
from stepup.core.api import plan
plan("./plan.py", workdir="c")
""",
    "a/b/c/plan.py": """\
#!/usr/bin/env python3
from stepup.core.api import copy
copy("inp.txt", "out.txt")
""",
}

STATE_NAMES = {21: "PENDING", 22: "RUNNING", 23: "SUCCEEDED", 24: "FAILED", 25: "CHECKING"}


def write(path, content, executable=False):
    with open(path, "w") as fh:
        fh.write(content)
    if executable:
        os.chmod(path, 0o755)


def build(workdir, env, njob):
    cp = subprocess.run(
        ["stepup", "build", "-j", str(njob), "--no-progress"],
        cwd=workdir,
        env=env,
        stdin=subprocess.DEVNULL,
        stdout=subprocess.PIPE,
        stderr=subprocess.STDOUT,
        text=True,
        timeout=300,
        check=False,
    )
    return cp.returncode, cp.stdout


def dump_steps(workdir):
    con = sqlite3.connect(os.path.join(workdir, ".stepup", "graph.db"))
    sql = (
        "SELECT node.i, node.creator, node.label, step.state, step._safe, step._ready, "
        "step._implied_need, step.deferred, step._holding, node.detached, step._check_safe "
        "FROM step JOIN node ON node.i = step.node ORDER BY node.i"
    )
    rows = list(con.execute(sql))
    con.close()
    return rows


def safe_by_definition(rows):
    """Evaluate the definition of _safe from the creator chain, independent of the cache."""
    by_i = {row[0]: row for row in rows}
    result = {}

    def creator_ok(i):
        # All (recursive) creators are RUNNING or SUCCEEDED and hold nothing.
        creator = by_i[i][1]
        if creator not in by_i:
            return True  # created by the root node
        crow = by_i[creator]
        return crow[3] in (22, 23) and crow[8] == 0 and creator_ok(creator)

    for i in by_i:
        result[i] = int(creator_ok(i))
    return result


def main():
    env = dict(os.environ)
    for name in list(env):
        if name.startswith("STEPUP_"):
            del env[name]
    env["PATH"] = "/venv/bin" + os.pathsep + env.get("PATH", "")
    env["PYTHONPATH"] = "/tmp/hunt_B"
    njob = int(sys.argv[1]) if len(sys.argv) > 1 else 1

    with tempfile.TemporaryDirectory(prefix="hunt_B_demo1_") as workdir:
        env["HOME"] = workdir
        os.makedirs(os.path.join(workdir, "a", "b", "c"))
        for relpath, content in PLANS.items():
            write(os.path.join(workdir, relpath), content, True)
        inp = os.path.join(workdir, "a", "b", "c", "inp.txt")
        out = os.path.join(workdir, "a", "b", "c", "out.txt")
        write(inp, "a\n")

        rc1, stdout1 = build(workdir, env, njob)
        if rc1 != 0 or not os.path.isfile(out) or open(out).read() != "a\n":
            print(stdout1)
            print(f"Unexpected: the first build did not succeed (rc={rc1}).")
            return 2

        # The user touches a nested plan (no functional change) and a data file.
        write(
            os.path.join(workdir, "a", "plan.py"),
            PLANS["a/plan.py"] + "# an innocent comment\n",
            True,
        )
        write(inp, "b\n")

        rc2, stdout2 = build(workdir, env, njob)
        content2 = open(out).read() if os.path.isfile(out) else None
        rows2 = dump_steps(workdir)

        rc3, stdout3 = build(workdir, env, njob)
        content3 = open(out).read() if os.path.isfile(out) else None

        print("=== output of the second build ===")
        print(stdout2)
        print("=== step table after the second build ===")
        print("state | _safe | _safe by definition | _ready | _implied_need | detached | label")
        expected_safe = safe_by_definition(rows2)
        eligible_but_left = []
        for row in rows2:
            i, _, label, state, safe, ready, need, deferred, _, detached, _ = row
            print(
                f"{STATE_NAMES[state]:9s} | {safe} | {expected_safe[i]} | {ready} | {need} "
                f"| {detached} | {label}"
            )
            if (
                state == 21
                and not detached
                and not deferred
                and need > 31
                and ready
                and expected_safe[i]
            ):
                eligible_but_left.append(row)
        print()
        print(f"second build: returncode={rc2} a/b/c/out.txt={content2!r}")
        print(f"third build (nothing changed in between): returncode={rc3} out.txt={content3!r}")
        print()

        if eligible_but_left or content2 != "b\n":
            print("DEFECT (C10): the build phase ended while a step satisfied every dispatch")
            print("condition; its cached _safe disagrees with the definition:")
            for row in eligible_but_left:
                print(
                    f"  {row[2]!r}: PENDING, attached, needed, not deferred, ready, all creators "
                    f"SUCCEEDED without hold, yet _safe={row[4]} and _check_safe={row[10]}"
                )
            if content3 != "b\n":
                print("A third build without any change leaves it pending as well.")
            return 1
        print("OK: the copy step was rebuilt.")
        return 0


if __name__ == "__main__":
    sys.exit(main())
