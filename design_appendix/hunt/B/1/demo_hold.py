#!/usr/bin/env python3
"""Second manifestation of defect 1 (same root cause), in memory: release() of a hold.

Run as:

    cd /tmp/hunt_B && PYTHONPATH=/tmp/hunt_B /venv/bin/python _found/1/demo_hold.py

Only public methods are used, in the order in which the director calls them in a real build
with -j 2 (Workflow.define_step, Scheduler.pop_next_job, Step.mark_completed, Step.hold,
Step.release), for this plan:

    plan.py (X):   plan("./sub.py")          # C, defines S = step("work", inp="late.txt")
                   ... C runs and succeeds while X is still running ...
                   with hold():
                       step("make-late", out="late.txt")     # L
                   time.sleep(...)   # X keeps running for a while after the hold block

While X holds, a scheduler tick stores _safe = 0 for C and S (correct).
release() flags X, C, S and L together (RECURSIVE_CHECK_WITH_PRODUCTS).
At the next tick FILL_SAFE_UPDATE seeds S from C's *stored* _safe (still 0),
and MIN() prefers that stale 0 over the correct 1 obtained by walking down from X.
S keeps _safe = 0 after the release, so it is not dispatched although nothing holds it
any more; it only recovers when X itself changes state.
Exits 1 when the stale value is observed.
"""

import asyncio
import sys

from stepup.core.enums import Need, StepState
from stepup.core.hash import StepHash
from stepup.core.scheduler import Scheduler
from stepup.core.sqlite3 import DBSession
from stepup.core.step import Step
from stepup.core.workflow import Workflow

sys.path.insert(0, "/tmp/hunt_B/tests")
from conftest import declare_static  # noqa: E402


def show(db, title):
    print(title)
    sql = (
        "SELECT label, state, _safe, _safe_ignoring_hold, _holding, _check_safe "
        "FROM step JOIN node ON node.i = step.node ORDER BY node.i"
    )
    for label, state, safe, safe_nh, holding, check in db.execute(sql):
        print(
            f"   {label:12s} {StepState(state).name:9s} _safe={safe} _safe_ignoring_hold={safe_nh} "
            f"_holding={holding} _check_safe={check}"
        )


async def main():
    with DBSession.open(":memory:") as db:
        wf = Workflow(db, dir_queue=None)
        await wf.initialize()
        sched = Scheduler(wf, db=db)
        await sched.initialize(None)

        # Boot: plan.py is the step X.
        async with db:
            declare_static(wf, wf.root, ["plan.py"])
            wf.define_step(wf.root, "./plan.py", inp_paths=["plan.py"], need=Need.PLAN, _safe=True)
        job_x = await sched.pop_next_job()
        assert job_x.step.label == "./plan.py"
        step_x = job_x.step

        # X declares the nested plan C, which is dispatched while X is running.
        async with db:
            declare_static(wf, step_x, ["sub.py"])
            wf.define_step(step_x, "./sub.py", inp_paths=["sub.py"], need=Need.PLAN)
        job_c = await sched.pop_next_job()
        assert job_c.step.label == "./sub.py"
        step_c = job_c.step

        # C declares S, which waits for late.txt, and then C succeeds.
        async with db:
            wf.define_step(step_c, "work", inp_paths=["late.txt"])
            step_c.mark_completed(StepHash(b"c" * 32, None, b"o" * 32), False)
        sched.record_job_completed(job_c)
        assert await sched.pop_next_job() is None  # S is not ready: late.txt is not there yet.

        # X opens a hold block and declares L inside it.
        async with db:
            step_x.hold()
            wf.define_step(step_x, "make-late", out_paths=["late.txt"])
        assert await sched.pop_next_job() is None  # define_step wakes the job loop: a tick.
        async with db:
            show(db, "While X holds (after a scheduler tick):")

        # X leaves the hold block.
        async with db:
            step_x.release()
        job_l = await sched.pop_next_job()  # release_dispatch wakes the job loop: a tick.
        assert job_l.step.label == "make-late"
        async with db:
            show(db, "After release() and the next scheduler tick (X still RUNNING):")
            step_s = wf.find(Step, "work")
            safe_s = db.execute("SELECT _safe FROM step WHERE node = ?", (step_s.i,)).fetchone()[0]
            states = dict(
                db.execute("SELECT label, state FROM step JOIN node ON node.i = step.node")
            )
            holding = db.execute("SELECT SUM(_holding) FROM step").fetchone()[0]

        ok_creators = (
            states["./plan.py"] == StepState.RUNNING.value
            and states["./sub.py"] == StepState.SUCCEEDED.value
            and holding == 0
        )
        if ok_creators and safe_s == 0:
            print()
            print("DEFECT (C10): every creator of 'work' is RUNNING or SUCCEEDED and nothing is")
            print("held any more, yet its cached _safe is 0 and _check_safe has been cleared.")
            return 1
        print("OK")
        return 0


if __name__ == "__main__":
    sys.exit(asyncio.run(main()))
