#!/usr/bin/env python3
"""Demo: a static input changes under a RUNNING step, yet the step is recorded as SUCCEEDED.

Real `stepup build` runs in a temporary directory, unchanged code.

History
-------
plan.py declares

    static("shared.txt")
    slow : inp=shared.txt            out=slow.out   (reads shared.txt at once, finishes later)
    gate :                           out=gate.txt   (finishes when the driver says so)
    fast : inp=shared.txt, gate.txt  out=fast.out

1. `stepup build -j 3` starts. `slow` and `gate` are dispatched. `slow` reads shared.txt ("old").
2. The user edits shared.txt ("new") while `slow` is still running.
3. `gate` completes, `fast` is dispatched. `Executor._new_run` of `fast` notices that shared.txt
   differs from the recorded hash: `fast` FAILS, the scheduler drains, and the *new* hash of
   shared.txt is written to the database (`update_file_hashes(cause=FAILED)`).
   `mark_step_pending(slow)` is ignored because `slow` is RUNNING.
4. `slow` completes. `_compute_full_step_hash` compares shared.txt on disk with the hash that is
   *now* in the database (the new one, written in 3), not with the hash `slow` was started with.
   No difference => `slow` is recorded SUCCEEDED with a step hash over the *new* shared.txt,
   although slow.out was computed from the *old* content.
5. A second `stepup build` (nothing edited in between) reruns only `fast`.
   `slow` stays SUCCEEDED forever: slow.out is stale. A build from scratch gives "new".
"""

import os
import shutil
import subprocess
import sys
import tempfile
import time

ROOT = "/tmp/hunt_H"
ENV = dict(os.environ)
ENV["PATH"] = "/venv/bin:" + ENV["PATH"]
ENV["PYTHONPATH"] = ROOT
ENV["COLUMNS"] = "100"
for name in list(ENV):
    if name.startswith("STEPUP_"):
        del ENV[name]

PLAN = """\
#!/usr/bin/env python3
from stepup.core.api import run, static

static("shared.txt", "slow.py", "gate.py")
run("./slow.py", inp=["slow.py", "shared.txt"], out="slow.out")
run("./gate.py", inp=["gate.py"], out="gate.txt")
run("cat shared.txt gate.txt > fast.out", shell=True, inp=["shared.txt", "gate.txt"], out="fast.out")
"""

SLOW = """\
#!/usr/bin/env python3
import os, time
with open("shared.txt") as fh:
    content = fh.read()
with open("flag_slow_started", "w") as fh:
    fh.write("x")
while not os.path.exists("flag_slow_go"):
    time.sleep(0.05)
with open("slow.out", "w") as fh:
    fh.write(content)
"""

GATE = """\
#!/usr/bin/env python3
import os, time
while not os.path.exists("flag_gate_go"):
    time.sleep(0.05)
with open("gate.txt", "w") as fh:
    fh.write("gate\\n")
"""


def write(path, content, mode=None):
    with open(path, "w") as fh:
        fh.write(content)
    if mode is not None:
        os.chmod(path, mode)


def wait_for(predicate, what, timeout=60):
    t0 = time.time()
    while not predicate():
        if time.time() - t0 > timeout:
            raise SystemExit(f"demo broken: timeout waiting for {what}")
        time.sleep(0.05)


def build(workdir, logname):
    with open(os.path.join(workdir, logname), "w") as fh:
        return subprocess.Popen(
            ["stepup", "build", "-j", "3", "--no-progress"],
            cwd=workdir,
            env=ENV,
            stdin=subprocess.DEVNULL,
            stdout=fh,
            stderr=subprocess.STDOUT,
        )


def read(path):
    with open(path) as fh:
        return fh.read()


def main():
    workdir = tempfile.mkdtemp(prefix="hunt_H_1_")
    try:
        write(os.path.join(workdir, "plan.py"), PLAN, 0o755)
        write(os.path.join(workdir, "slow.py"), SLOW, 0o755)
        write(os.path.join(workdir, "gate.py"), GATE, 0o755)
        write(os.path.join(workdir, "shared.txt"), "old\n")

        # Build 1
        proc = build(workdir, "build1.log")
        wait_for(
            lambda: os.path.exists(os.path.join(workdir, "flag_slow_started")),
            "slow.py to read shared.txt",
        )
        # The user edits the static input while slow.py is running.
        time.sleep(0.05)
        write(os.path.join(workdir, "shared.txt"), "new and longer\n")
        # Let gate.py finish, so `fast` gets dispatched and trips over the changed input.
        write(os.path.join(workdir, "flag_gate_go"), "x")
        wait_for(
            lambda: "draining due to unexpected input changes"
            in read(os.path.join(workdir, "build1.log")),
            "fast to fail on the changed input",
        )
        # Now let slow.py finish.
        write(os.path.join(workdir, "flag_slow_go"), "x")
        rc1 = proc.wait(timeout=60)
        log1 = read(os.path.join(workdir, "build1.log"))
        print("=== build 1 (rc=%d) ===" % rc1)
        print(log1)

        # Build 2: nothing edited.
        proc = build(workdir, "build2.log")
        rc2 = proc.wait(timeout=60)
        log2 = read(os.path.join(workdir, "build2.log"))
        print("=== build 2 (rc=%d) ===" % rc2)
        print(log2)

        shared = read(os.path.join(workdir, "shared.txt"))
        slow_out = read(os.path.join(workdir, "slow.out"))
        problems = []
        slow_success_1 = any(
            "SUCCESS" in line and "./slow.py" in line for line in log1.splitlines()
        )
        if slow_success_1:
            problems.append(
                "build 1: ./slow.py was recorded as SUCCESS although its input shared.txt "
                "changed while it was running (C03: it must FAIL)"
            )
        if rc2 == 0 and slow_out != shared:
            problems.append(
                f"after build 2 (rc=0): slow.out = {slow_out!r} but a build from scratch of the "
                f"final sources gives {shared!r} (C01: stale output, step wrongly considered done)"
            )
        if problems:
            print("DEFECT CONFIRMED")
            for p in problems:
                print(" -", p)
            return 1
        print("no defect observed")
        return 0
    finally:
        shutil.rmtree(workdir, ignore_errors=True)


if __name__ == "__main__":
    sys.exit(main())
