#!/usr/bin/env python3
"""Demo: dropping the producer of a file from plan.py leaves its consumer SUCCEEDED (rc=0).

Real `stepup build` runs (restart mode) in temporary directories, unchanged code.

History
-------
plan.py, version 1:

    run("echo hello > x.txt", shell=True, out="x.txt")
    run("cp x.txt out.txt", shell=True, inp=["x.txt"], out=["out.txt"])

1. `stepup build` -> both steps run, rc=0.
2. Edit plan.py: remove the first line (nothing builds x.txt any more).
3. `stepup build` -> plan.py reruns, the producer and x.txt become detached,
   `cp x.txt out.txt` is recycled in state SUCCEEDED and nothing ever makes it pending.
   rc=0, "all done", x.txt and out.txt stay on disk (x.txt is held by its attached consumer).
4. `stepup build` again: still rc=0, 0 jobs.

Reference: a build from scratch of the final plan.py cannot run `cp x.txt out.txt`
(x.txt is built by nothing): the step remains PENDING, the return code has the PENDING bit (16),
and there is no out.txt.
"""

import os
import shutil
import sqlite3
import subprocess
import sys
import tempfile

ROOT = "/tmp/hunt_H"
ENV = dict(os.environ)
ENV["PATH"] = "/venv/bin:" + ENV["PATH"]
ENV["PYTHONPATH"] = ROOT
ENV["COLUMNS"] = "100"
for name in list(ENV):
    if name.startswith("STEPUP_"):
        del ENV[name]

PLAN1 = """\
#!/usr/bin/env python3
from stepup.core.api import run

run("echo hello > x.txt", shell=True, out="x.txt")
run("cp x.txt out.txt", shell=True, inp=["x.txt"], out=["out.txt"])
"""

PLAN2 = """\
#!/usr/bin/env python3
from stepup.core.api import run

run("cp x.txt out.txt", shell=True, inp=["x.txt"], out=["out.txt"])
"""



def write_plan(workdir, content):
    path = os.path.join(workdir, "plan.py")
    with open(path, "w") as fh:
        fh.write(content)
    os.chmod(path, 0o755)


def build(workdir, title):
    proc = subprocess.run(
        ["stepup", "build", "-j", "2", "--no-progress"],
        cwd=workdir,
        env=ENV,
        stdin=subprocess.DEVNULL,
        capture_output=True,
        text=True,
        timeout=120,
    )
    print(f"=== {title} (rc={proc.returncode}) ===")
    print(proc.stdout)
    if proc.stderr.strip():
        print(proc.stderr)
    return proc.returncode


def summary(workdir):
    """Return (state of the cp step among attached steps, sorted data files on disk)."""
    from stepup.core.enums import StepState

    con = sqlite3.connect(os.path.join(workdir, ".stepup", "graph.db"))
    try:
        rows = con.execute(
            "SELECT step.state, node.detached FROM node JOIN step ON step.node = node.i "
            "WHERE node.label = 'cp x.txt out.txt'"
        ).fetchall()
        inp = con.execute(
            "SELECT node.detached, file.state FROM node JOIN file ON file.node = node.i "
            "WHERE node.label = 'x.txt'"
        ).fetchall()
    finally:
        con.close()
    state = [(StepState(s).name, bool(d)) for s, d in rows]
    files = sorted(name for name in os.listdir(workdir) if name.endswith(".txt"))
    return state, inp, files


def main():
    sys.path.insert(0, ROOT)
    workdir = tempfile.mkdtemp(prefix="hunt_H_3_")
    refdir = tempfile.mkdtemp(prefix="hunt_H_3_ref_")
    try:
        write_plan(workdir, PLAN1)
        rc1 = build(workdir, "build 1, plan.py version 1")
        write_plan(workdir, PLAN2)
        rc2 = build(workdir, "build 2, producer of x.txt removed from plan.py")
        rc3 = build(workdir, "build 3, nothing changed")
        inc = summary(workdir)

        write_plan(refdir, PLAN2)
        rc_ref = build(refdir, "reference: build from scratch of the final plan.py")
        ref = summary(refdir)

        print("incremental: rc =", rc3, " cp step (state, detached) =", inc[0],
              " x.txt node (detached, state) =", inc[1], " files =", inc[2])
        print("from scratch: rc =", rc_ref, " cp step (state, detached) =", ref[0],
              " x.txt node (detached, state) =", ref[1], " files =", ref[2])
        if rc1 != 0:
            print("demo broken: first build failed")
            return 2
        problems = []
        if (rc2, rc3) != (rc_ref, rc_ref):
            problems.append(
                f"return codes differ: incremental builds 2 and 3 gave {rc2} and {rc3}, "
                f"from scratch gives {rc_ref}"
            )
        if inc[0] != ref[0]:
            problems.append(
                f"step 'cp x.txt out.txt' is {inc[0]} after the incremental build, "
                f"{ref[0]} from scratch (wrongly considered done: its input is built by nothing)"
            )
        if inc[2] != ref[2]:
            problems.append(f"files on disk differ: incremental {inc[2]}, from scratch {ref[2]}")
        if problems:
            print("DEFECT CONFIRMED (C01)")
            for p in problems:
                print(" -", p)
            return 1
        print("no defect observed")
        return 0
    finally:
        shutil.rmtree(workdir, ignore_errors=True)
        shutil.rmtree(refdir, ignore_errors=True)


if __name__ == "__main__":
    sys.exit(main())
