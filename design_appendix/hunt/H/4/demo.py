#!/usr/bin/env python3
"""Demo: two steps that trip over the same vanished input at the same time crash the director.

Real `stepup build -j 3` in a temporary directory, unchanged code.

History
-------
plan.py:

    static("s.txt", "gate.py")
    gate: ./gate.py                       out=gate.txt   (finishes when the driver says so)
    a:    cat s.txt gate.txt > a.txt      inp=s.txt, gate.txt
    b:    cat s.txt gate.txt > b.txt      inp=s.txt, gate.txt

1. `stepup build -j 3`: plan.py declares and confirms s.txt, gate.py runs.
2. The user deletes s.txt while gate.py is running.
3. gate.py completes; `a` and `b` become ready together and are dispatched in the same
   iteration of `Builder.job_loop`, both with the recorded hash of s.txt.
4. `Executor._new_run(a)`: "Input vanished unexpectedly: s.txt" ->
   `update_file_hashes({s.txt: unknown}, cause=FAILED)`: (FAILED, CONFIRMED, False) -> MISSING. OK.
5. `Executor._new_run(b)`: same observation -> `update_file_hashes({s.txt: unknown}, cause=FAILED)`
   but s.txt is MISSING by now: (FAILED, MISSING, False) is not a key of `_HASH_TRANSITIONS`
   -> ConsistencyError -> task exception -> `Builder.handle_done_tasks` raises RuntimeError ->
   "The director raised an exception", return code 1 (INTERNAL).

Expected (C03): both steps FAIL with "Input vanished unexpectedly", the scheduler drains, return
code FAILED|DRAINED (36), as happens when only one step consumes s.txt.
"""

import os
import shutil
import subprocess
import sys
import tempfile
import time

ROOT = "/tmp/hunt_H"
ENV = dict(os.environ)
ENV["PATH"] = "/venv/bin:" + ENV["PATH"]
ENV["PYTHONPATH"] = ROOT
ENV["COLUMNS"] = "100"
for name in list(ENV):
    if name.startswith("STEPUP_"):
        del ENV[name]

PLAN = """\
#!/usr/bin/env python3
from stepup.core.api import run, static

static("s.txt", "gate.py")
run("./gate.py", inp=["gate.py"], out="gate.txt")
run("cat s.txt gate.txt > a.txt", shell=True, inp=["s.txt", "gate.txt"], out="a.txt")
run("cat s.txt gate.txt > b.txt", shell=True, inp=["s.txt", "gate.txt"], out="b.txt")
"""

GATE = """\
#!/usr/bin/env python3
import os, time
with open("flag_started", "w") as fh:
    fh.write("x")
while not os.path.exists("flag_go"):
    time.sleep(0.05)
with open("gate.txt", "w") as fh:
    fh.write("gate\\n")
"""


def main():
    workdir = tempfile.mkdtemp(prefix="hunt_H_4_")
    try:
        for name, content in [("plan.py", PLAN), ("gate.py", GATE)]:
            path = os.path.join(workdir, name)
            with open(path, "w") as fh:
                fh.write(content)
            os.chmod(path, 0o755)
        with open(os.path.join(workdir, "s.txt"), "w") as fh:
            fh.write("s\n")

        logpath = os.path.join(workdir, "build.log")
        with open(logpath, "w") as fh:
            proc = subprocess.Popen(
                ["stepup", "build", "-j", "3", "--no-progress"],
                cwd=workdir,
                env=ENV,
                stdin=subprocess.DEVNULL,
                stdout=fh,
                stderr=subprocess.STDOUT,
            )
        t0 = time.time()
        while not os.path.exists(os.path.join(workdir, "flag_started")):
            if time.time() - t0 > 60:
                proc.kill()
                print("demo broken: gate.py never started")
                return 2
            time.sleep(0.05)
        # Give the director time to confirm s.txt (it was declared before gate.py was defined).
        time.sleep(0.5)
        os.remove(os.path.join(workdir, "s.txt"))
        with open(os.path.join(workdir, "flag_go"), "w") as fh:
            fh.write("x")
        rc = proc.wait(timeout=120)
        with open(logpath) as fh:
            log = fh.read()
        print(log)
        print("return code:", rc)
        if "ConsistencyError: Unexpected file hash update: cause=FAILED path=s.txt state=MISSING" in log:
            print("DEFECT CONFIRMED")
            print(
                " - the director crashed (ConsistencyError in update_file_hashes, rc=%d) instead of "
                "failing both steps and draining (rc=36)" % rc
            )
            return 1
        print("no defect observed")
        return 0
    finally:
        shutil.rmtree(workdir, ignore_errors=True)


if __name__ == "__main__":
    sys.exit(main())
