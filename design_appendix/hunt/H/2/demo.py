#!/usr/bin/env python3
"""Demo: a tracked environment variable that changes A -> B -> A leaves a stale output.

Real `stepup build` runs (restart mode) in a temporary directory, unchanged code.

History
-------
plan.py:

    run("echo $MYVAR > out.txt", shell=True, env="MYVAR", out="out.txt")

1. `MYVAR=A stepup build`  -> out.txt = "A". The director stores env_var(step, MYVAR, value='A').
2. `MYVAR=B stepup build`  -> startup.rescan_env_vars sees B != 'A', makes the step pending,
   the hash check notices the change, the step reruns: out.txt = "B", step_hash is over MYVAR=B.
   The stored env_var.value is NOT refreshed: it still says 'A'.
3. `MYVAR=A stepup build`  -> rescan_env_vars compares os.getenv('MYVAR') = 'A' with the stale
   stored 'A': "nothing changed". The step stays SUCCEEDED and is never hash-checked.
   out.txt still contains "B", while a build from scratch with MYVAR=A gives "A".
"""

import os
import shutil
import subprocess
import sys
import tempfile

ROOT = "/tmp/hunt_H"
BASE_ENV = dict(os.environ)
BASE_ENV["PATH"] = "/venv/bin:" + BASE_ENV["PATH"]
BASE_ENV["PYTHONPATH"] = ROOT
BASE_ENV["COLUMNS"] = "100"
for name in list(BASE_ENV):
    if name.startswith("STEPUP_"):
        del BASE_ENV[name]

PLAN = """\
#!/usr/bin/env python3
from stepup.core.api import run

run("echo $MYVAR > out.txt", shell=True, env="MYVAR", out="out.txt")
"""


def build(workdir, value):
    env = dict(BASE_ENV)
    env["MYVAR"] = value
    proc = subprocess.run(
        ["stepup", "build", "-j", "1", "--no-progress"],
        cwd=workdir,
        env=env,
        stdin=subprocess.DEVNULL,
        capture_output=True,
        text=True,
        timeout=120,
    )
    print(f"=== MYVAR={value} stepup build (rc={proc.returncode}) ===")
    print(proc.stdout)
    if proc.stderr.strip():
        print(proc.stderr)
    with open(os.path.join(workdir, "out.txt")) as fh:
        out = fh.read().strip()
    print(f"out.txt = {out!r}\n")
    return proc.returncode, out, proc.stdout


def main():
    workdir = tempfile.mkdtemp(prefix="hunt_H_2_")
    try:
        plan = os.path.join(workdir, "plan.py")
        with open(plan, "w") as fh:
            fh.write(PLAN)
        os.chmod(plan, 0o755)

        rc1, out1, _ = build(workdir, "A")
        rc2, out2, _ = build(workdir, "B")
        rc3, out3, log3 = build(workdir, "A")
        if (rc1, out1, rc2, out2) != (0, "A", 0, "B"):
            print("demo broken: builds 1 and 2 did not behave as expected")
            return 2

        # Reference: from scratch with MYVAR=A.
        refdir = tempfile.mkdtemp(prefix="hunt_H_2_ref_")
        try:
            shutil.copy(plan, os.path.join(refdir, "plan.py"))
            _, ref, _ = build(refdir, "A")
        finally:
            shutil.rmtree(refdir, ignore_errors=True)

        if rc3 == 0 and out3 != ref:
            print("DEFECT CONFIRMED")
            print(
                f" - build 3 (MYVAR=A) returned 0 and left out.txt = {out3!r}, "
                f"a build from scratch gives {ref!r} (C01: stale output, "
                "step wrongly considered done after a change of a tracked environment variable)"
            )
            if "START" not in log3:
                print(" - build 3 neither executed nor hash-checked the step")
            return 1
        print("no defect observed")
        return 0
    finally:
        shutil.rmtree(workdir, ignore_errors=True)


if __name__ == "__main__":
    sys.exit(main())
