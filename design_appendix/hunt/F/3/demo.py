#!/usr/bin/env python3
"""C20: `call(..., workdir=W, args_file=F)` writes F in one directory and reads it in another.

Run as:  cd /tmp/hunt_F && PYTHONPATH=/tmp/hunt_F /venv/bin/python _found/3/demo.py

Uses a real `stepup build` in a temporary directory.
The plan is tests/examples/call_workdir/plan.py plus the documented `args_file=` argument.
Exits 1 when the defect is observed, 0 when the behaviour is correct.
"""

import os
import subprocess
import sys
import tempfile

ENV = dict(os.environ)
ENV["PATH"] = "/venv/bin:" + ENV.get("PATH", "")
ENV["PYTHONPATH"] = os.environ.get("DEMO_PYTHONPATH", "/tmp/hunt_F")
for name in ("STEPUP_ROOT", "HERE", "ROOT", "STEPUP_DIRECTOR_SOCKET"):
    ENV.pop(name, None)

PLAN = """\
#!/usr/bin/env python3
from stepup.core.api import call, static

static("sub/work.py", "sub/data.txt")
call("./work.py", "run", inp=["data.txt"], out=["result.txt"], workdir="sub"{extra})
"""

WORK = """\
#!/usr/bin/env python3
from stepup.core.call import driver


def run(inp, out):
    with open(out[0], "w") as f, open(inp[0]) as g:
        f.write(g.read())


if __name__ == "__main__":
    driver()
"""


def write(path, text, executable=False):
    with open(path, "w") as fh:
        fh.write(text)
    if executable:
        os.chmod(path, 0o755)


def build(extra):
    root = tempfile.mkdtemp(prefix="hunt_F_3_")
    os.mkdir(os.path.join(root, "sub"))
    write(os.path.join(root, "plan.py"), PLAN.format(extra=extra), True)
    write(os.path.join(root, "sub/work.py"), WORK, True)
    write(os.path.join(root, "sub/data.txt"), "payload\n")
    proc = subprocess.run(
        ["stepup", "build", "-j", "1"],
        cwd=root,
        env=ENV,
        stdout=subprocess.PIPE,
        stderr=subprocess.STDOUT,
        text=True,
        timeout=120,
        check=False,
    )
    found = sorted(
        os.path.relpath(os.path.join(dn, fn), root)
        for dn, _, fns in os.walk(root)
        for fn in fns
        if fn in ("args.json", "result.txt")
    )
    return root, proc.stdout, proc.returncode, found


def main():
    status = 0
    # Control: the very same call with inline arguments works (tests/examples/call_workdir).
    _, out, rc, found = build("")
    ok_inline = "sub/result.txt" in found and "remained pending" not in out
    print(f"inline arguments:      returncode={rc} files={found} -> {'ok' if ok_inline else 'BROKEN'}")

    for args_file in ("args.json", "sub/args.json"):
        root, out, rc, found = build(f', args_file="{args_file}"')
        ok = "sub/result.txt" in found and "remained pending" not in out
        print(f"args_file={args_file!r:16} returncode={rc} files={found} -> {'ok' if ok else 'BROKEN'}")
        if not ok:
            status = 1
            print("--- stepup build output ---")
            print(out.strip())
            written = [p for p in found if p.endswith("args.json")]
            wanted = [
                line.strip() for line in out.splitlines() if "args.json" in line and "(" in line
            ]
            print(f"--- the arguments were written to {written}, the called step waits for {wanted}")
    if status:
        print(
            "DEFECT: the relative path given as args_file is resolved in the caller's directory\n"
            "when the file is written and declared as output of the calling step, but in the\n"
            "called step's workdir when it is declared as input and put on the command line.\n"
            "The two records designate different files, the called step never becomes runnable,\n"
            "and no value of args_file (other than an absolute path) makes them agree."
        )
    else:
        print("No defect observed.")
    return status


if __name__ == "__main__":
    sys.exit(main())
