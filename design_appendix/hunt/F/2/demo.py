#!/usr/bin/env python3
"""C17: directory matches of a pattern are never updated in watch mode.

Run as:  cd /tmp/hunt_F && PYTHONPATH=/tmp/hunt_F /venv/bin/python _found/2/demo.py

Uses a real `stepup build -w` in a temporary directory and only the documented
command-line interaction (`stepup wait`, `stepup rebuild`, `stepup join`).
Exits 1 when the defect is observed, 0 when the behaviour is correct.
"""

import os
import subprocess
import sys
import tempfile
import time

ENV = dict(os.environ)
ENV["PATH"] = "/venv/bin:" + ENV.get("PATH", "")
ENV["PYTHONPATH"] = os.environ.get("DEMO_PYTHONPATH", "/tmp/hunt_F")
for name in ("STEPUP_ROOT", "HERE", "ROOT", "STEPUP_DIRECTOR_SOCKET"):
    ENV.pop(name, None)

# `static("run_*/")` is the documented spelling for "every matching directory is a static tree"
# (docs/getting_started/static_patterns.md, section "Directories and Recursive Patterns").
PLAN = """\
#!/usr/bin/env python3
from stepup.core.api import static, step
static("marker.txt")
print("TREES:", sorted(str(p) for p in static("run_*/")))
step("cat marker.txt", inp="marker.txt")
"""


def cli(root, *args, timeout=60):
    return subprocess.run(
        ["stepup", *args],
        cwd=root,
        env=ENV,
        stdout=subprocess.PIPE,
        stderr=subprocess.STDOUT,
        text=True,
        timeout=timeout,
        check=True,
    ).stdout


def write(path, text, executable=False):
    with open(path, "w") as fh:
        fh.write(text)
    if executable:
        os.chmod(path, 0o755)


def main():
    root = tempfile.mkdtemp(prefix="hunt_F_2_")
    os.mkdir(os.path.join(root, "run_1"))
    write(os.path.join(root, "plan.py"), PLAN, True)
    write(os.path.join(root, "marker.txt"), "one\n")

    out_path = os.path.join(root, "out.txt")
    with open(out_path, "w") as fh:
        director = subprocess.Popen(
            ["stepup", "build", "-j", "1", "-w"], cwd=root, env=ENV, stdout=fh, stderr=fh
        )
    try:
        # Build 1: plan.py registers run_*/ with the single match run_1/.
        cli(root, "wait")
        # Watch phase: one match appears and another one disappears.
        os.mkdir(os.path.join(root, "run_2"))
        os.rmdir(os.path.join(root, "run_1"))
        time.sleep(0.5)
        # marker.txt lives in the same watched directory. inotify events are ordered,
        # so once its change is reported, the watcher has seen the two directory events too.
        write(os.path.join(root, "marker.txt"), "two\n")
        cli(root, "wait", "-u", "marker.txt")
        cli(root, "rebuild")
        cli(root, "wait")
        cli(root, "join")
        director.wait(timeout=60)
    finally:
        if director.poll() is None:
            director.kill()

    with open(out_path) as fh:
        watch_out = fh.read()
    last_build = watch_out.rsplit("PHASE │ build", 1)[1]
    dirs_reported = "run_2" in watch_out.split("PHASE │ watch", 1)[1] or (
        "DELETED │ run_1" in watch_out
    )
    plan_reran = "START │ ./plan.py" in last_build

    # Reference: what a fresh scan of the file system says (startup.rescan_nglobs).
    restart_out = cli(root, "build", "-j", "1")
    rescan_added = "UPDATED │ run_2/" in restart_out
    rescan_deleted = "DELETED │ run_1/" in restart_out
    rescan_reruns = "START │ ./plan.py" in restart_out

    print("=== output of the watch session, from the first watch phase on ===")
    print("PHASE │ watch" + watch_out.split("PHASE │ watch", 1)[1].rstrip())
    print("=== output of a restart right after it ===")
    print(restart_out.strip())
    print("=== verdict ===")
    print(f"watcher reported the directory changes:             {dirs_reported}")
    print(f"plan.py executed again in the watch-mode rebuild:   {plan_reran}")
    print(f"restart reports run_2/ as a new match:              {rescan_added}")
    print(f"restart reports run_1/ as a deleted match:          {rescan_deleted}")
    print(f"restart reruns plan.py:                             {rescan_reruns}")
    if not plan_reran and not dirs_reported and (rescan_added or rescan_deleted):
        print(
            "DEFECT: in watch mode the match set of run_*/ stayed ['run_1/'] although run_1/ was\n"
            "removed and run_2/ was created; the step that registered the pattern was not made\n"
            "pending and run_2/ was not registered as a static tree. A fresh scan (restart) finds\n"
            "both changes. Updating the recorded match set from the watcher's changes does not\n"
            "give the same result as scanning the file system again."
        )
        return 1
    print("No defect observed.")
    return 0


if __name__ == "__main__":
    sys.exit(main())
