#!/usr/bin/env python3
"""C17: a new glob match is lost in watch mode while the globbing step is detached.

Run as:  cd /tmp/hunt_F && PYTHONPATH=/tmp/hunt_F /venv/bin/python _found/1/demo.py

Uses a real `stepup build -w` in a temporary directory and only the documented
command-line interaction (`stepup wait`, `stepup rebuild`, `stepup join`).
Exits 1 when the defect is observed, 0 when the behaviour is correct.
"""

import os
import subprocess
import sys
import tempfile
import time

ENV = dict(os.environ)
ENV["PATH"] = "/venv/bin:" + ENV.get("PATH", "")
ENV["PYTHONPATH"] = os.environ.get("DEMO_PYTHONPATH", "/tmp/hunt_F")
for name in ("STEPUP_ROOT", "HERE", "ROOT", "STEPUP_DIRECTOR_SOCKET"):
    ENV.pop(name, None)

PLAN_OK = """\
#!/usr/bin/env python3
from stepup.core.api import static, plan
static("sub/")
plan("./plan.py", workdir="sub/")
"""

PLAN_BROKEN = """\
#!/usr/bin/env python3
from stepup.core.api import static, plan
static("sub/")
raise RuntimeError("typo made by the user while editing plan.py")
plan("./plan.py", workdir="sub/")
"""

SUB_PLAN = """\
#!/usr/bin/env python3
from stepup.core.api import glob
print("MATCHES:", sorted(str(p) for p in glob("*.txt")))
"""


def cli(root, *args, timeout=60):
    return subprocess.run(
        ["stepup", *args],
        cwd=root,
        env=ENV,
        stdout=subprocess.PIPE,
        stderr=subprocess.STDOUT,
        text=True,
        timeout=timeout,
        check=True,
    ).stdout


def write(path, text, executable=False):
    with open(path, "w") as fh:
        fh.write(text)
    if executable:
        os.chmod(path, 0o755)


def main():
    root = tempfile.mkdtemp(prefix="hunt_F_1_")
    os.mkdir(os.path.join(root, "sub"))
    write(os.path.join(root, "plan.py"), PLAN_OK, True)
    write(os.path.join(root, "sub/plan.py"), SUB_PLAN, True)
    write(os.path.join(root, "sub/a.txt"), "a\n")

    out_path = os.path.join(root, "out.txt")
    with open(out_path, "w") as fh:
        director = subprocess.Popen(
            ["stepup", "build", "-j", "1", "-w"], cwd=root, env=ENV, stdout=fh, stderr=fh
        )
    try:
        # Build 1: both plans run, the sub plan registers the pattern sub/*.txt.
        cli(root, "wait")
        # Build 2: plan.py fails before it re-creates the sub plan: the sub plan step is
        # detached and, because the build is incomplete, it is kept for recycling.
        write(os.path.join(root, "plan.py"), PLAN_BROKEN, True)
        cli(root, "wait", "-u", "plan.py")
        cli(root, "rebuild")
        cli(root, "wait")
        # Watch phase: a new match of sub/*.txt appears ...
        write(os.path.join(root, "sub/b.txt"), "b\n")
        time.sleep(0.5)
        # ... and then plan.py is repaired. inotify events are ordered, so once the change to
        # plan.py is reported, the creation of sub/b.txt has been seen by the watcher too.
        write(os.path.join(root, "plan.py"), PLAN_OK, True)
        cli(root, "wait", "-u", "plan.py")
        cli(root, "rebuild")
        cli(root, "wait")
        cli(root, "join")
        director.wait(timeout=60)
    finally:
        if director.poll() is None:
            director.kill()

    with open(out_path) as fh:
        watch_out = fh.read()
    last_build = watch_out.rsplit("PHASE │ build", 1)[1]
    b_reported = "sub/b.txt" in watch_out
    sub_skipped = "SKIP │ ./plan.py  # wd=sub" in last_build
    sub_ran = "SUCCESS │ ./plan.py  # wd=sub" in last_build

    # Reference: what a fresh scan of the file system says (startup.rescan_nglobs).
    restart_out = cli(root, "build", "-j", "1")
    rescan_sees_b = "UPDATED │ sub/b.txt" in restart_out
    rescan_reruns = "SUCCESS │ ./plan.py  # wd=sub" in restart_out

    print("=== output of the watch session (last build phase) ===")
    print(last_build.strip())
    print("=== output of a restart right after it ===")
    print(restart_out.strip())
    print("=== verdict ===")
    print(f"watcher reported sub/b.txt:                         {b_reported}")
    print(f"sub plan skipped in the last watch-mode build:      {sub_skipped}")
    print(f"sub plan executed in the last watch-mode build:     {sub_ran}")
    print(f"restart reports sub/b.txt as a new match:           {rescan_sees_b}")
    print(f"restart reruns the sub plan:                        {rescan_reruns}")
    if sub_skipped and not b_reported and rescan_sees_b:
        print(
            "DEFECT: the build finished 'successfully' with the step that globs sub/*.txt\n"
            "skipped on a stale match set ['a.txt'], although sub/b.txt was created while the\n"
            "watcher was active. Updating the recorded match set from the watcher's changes\n"
            "does not give the same result as scanning the file system again."
        )
        return 1
    print("No defect observed.")
    return 0


if __name__ == "__main__":
    sys.exit(main())
