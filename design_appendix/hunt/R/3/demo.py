#!/usr/bin/env python3
"""A running step that is recycled with other env_overrides succeeds with the new hash on old work.

Run as: cd /tmp/hunt_R && PYTHONPATH=/tmp/hunt_R /venv/bin/python _found/3/demo.py

A real `stepup build -j 4` of a small project, followed by a second `stepup build`.
Only the public API is used: `static`, `step(..., env_overrides=...)`, `amend`.
"""

import os
import shutil
import sqlite3
import subprocess
import sys
import tempfile
from pathlib import Path

ROOT = "/tmp/hunt_R"

PLAN = """\
#!/usr/bin/env python3
from stepup.core.api import static, step

static("driver.py", "work.py", "gate.py")
step("./gate.py", inp="gate.py", out="gate.txt")
step("./driver.py", inp="driver.py")
"""

DRIVER = """\
#!/usr/bin/env python3
import time

from path import Path

from stepup.core.api import amend, step

# The setting handed to the work step depends on gate.txt, once it is there.
level = "2" if Path("gate.txt").exists() else "1"
step("./work.py", inp="work.py", out="a.txt", env_overrides={"LEVEL": level})
while not Path("started.log").exists():
    time.sleep(0.1)
with open("go.txt", "w") as fh:
    fh.write("go")
# The first run is deferred here: gate.txt is not built yet.
amend(inp="gate.txt")
time.sleep(1.0)
with open("finish.txt", "w") as fh:
    fh.write("go")
"""

GATE = """\
#!/usr/bin/env python3
import time

from path import Path

while not Path("go.txt").exists():
    time.sleep(0.1)
with open("gate.txt", "w") as fh:
    fh.write("open")
"""

WORK = """\
#!/usr/bin/env python3
import os
import time

from path import Path

with open("started.log", "a") as fh:
    print("job", os.environ["STEPUP_JOB_I"], "LEVEL", os.environ["LEVEL"], file=fh)
while not Path("finish.txt").exists():
    time.sleep(0.1)
with open("a.txt", "w") as fh:
    fh.write("LEVEL=" + os.environ["LEVEL"])
"""


def main() -> int:
    env = os.environ | {
        "PATH": "/venv/bin:" + os.environ.get("PATH", ""),
        "PYTHONPATH": ROOT,
        "PYTHONUNBUFFERED": "yes",
        "COLUMNS": "100",
        "STEPUP_DEBUG": "1",
    }
    env.pop("STEPUP_ROOT", None)
    env.pop("STEPUP_DIRECTOR_SOCKET", None)
    tmp = Path(tempfile.mkdtemp(prefix="hunt_R_found3_"))
    try:
        for name, text in ("plan", PLAN), ("driver", DRIVER), ("gate", GATE), ("work", WORK):
            path = tmp / f"{name}.py"
            path.write_text(text)
            os.chmod(path, 0o755)
        for i in 1, 2:
            proc = subprocess.run(
                ["stepup", "build", "-j", "4"],
                cwd=tmp,
                env=env,
                stdin=subprocess.DEVNULL,
                stdout=subprocess.PIPE,
                stderr=subprocess.STDOUT,
                text=True,
                timeout=120,
            )
            print(f"--- build {i}, return code {proc.returncode}")
            print(proc.stdout)
        con = sqlite3.connect(tmp / ".stepup/graph.db")
        state, declared = con.execute(
            "SELECT state, env_overrides FROM step JOIN node ON node.i = step.node "
            "WHERE label = './work.py' AND NOT detached"
        ).fetchone()
        con.close()
        content = (tmp / "a.txt").read_text()
        started = (tmp / "started.log").read_text().splitlines()
        print("executions of ./work.py        :", started)
        print("state of ./work.py (22=RUNNING, 23=SUCCEEDED):", state)
        print("env_overrides in the workflow  :", declared)
        print("content of the output a.txt    :", content)
        if '"LEVEL": "2"' in declared and content == "LEVEL=1" and proc.returncode == 0:
            print(
                "DEFECT: ./work.py is SUCCEEDED for env_overrides LEVEL=2 and is skipped by every "
                "following build, but its output was made with LEVEL=1."
            )
            return 1
        print("The output agrees with the declaration.")
        return 0
    finally:
        shutil.rmtree(tmp, ignore_errors=True)


if __name__ == "__main__":
    sys.exit(main())
