#!/usr/bin/env python3
"""C14: a new glob match inside a NEW directory is invisible in watch mode, a restart finds it.

Run as: cd /tmp/hunt_R && PYTHONPATH=/tmp/hunt_R /venv/bin/python _found/4/demo.py

Only the public command line is used (`stepup build -w`, `stepup wait`, `stepup rebuild`,
`stepup join`), in the order a user would type the commands.
"""

import os
import shutil
import subprocess
import sys
import tempfile
import time
from pathlib import Path

ROOT = "/tmp/hunt_R"
ENV = os.environ | {
    "PATH": "/venv/bin:" + os.environ.get("PATH", ""),
    "PYTHONPATH": ROOT,
    "PYTHONUNBUFFERED": "yes",
    "COLUMNS": "100",
    "STEPUP_DEBUG": "1",
}
ENV.pop("STEPUP_ROOT", None)
ENV.pop("STEPUP_DIRECTOR_SOCKET", None)

PLAN = """\
#!/usr/bin/env python3
from stepup.core.api import amend, glob, static

static("data/")
paths = sorted(str(p) for p in glob("data/*/inp.txt"))
amend(out="list.txt")
with open("list.txt", "w") as fh:
    fh.write("\\n".join(paths))
"""


def sh(workdir, *args, **kwargs):
    return subprocess.run(
        args, cwd=workdir, env=ENV, stdin=subprocess.DEVNULL, timeout=90, **kwargs
    )


def main() -> int:
    tmp = Path(tempfile.mkdtemp(prefix="hunt_R_found4_"))
    try:
        (tmp / "data/a").mkdir(parents=True)
        (tmp / "data/a/inp.txt").write_text("one\n")
        (tmp / "plan.py").write_text(PLAN)
        os.chmod(tmp / "plan.py", 0o755)
        with open(tmp / "stdout1.txt", "w") as out:
            director = subprocess.Popen(
                ["stepup", "build", "-j", "1", "-w"],
                cwd=tmp,
                env=ENV,
                stdin=subprocess.DEVNULL,
                stdout=out,
                stderr=subprocess.STDOUT,
            )
            sh(tmp, "stepup", "wait", stdout=subprocess.DEVNULL, stderr=subprocess.DEVNULL)
            # While watching: a second case directory with an input file, like the first one.
            (tmp / "data/b").mkdir()
            time.sleep(0.5)
            (tmp / "data/b/inp.txt").write_text("two\n")
            time.sleep(1.0)
            sh(tmp, "stepup", "rebuild")
            sh(tmp, "stepup", "wait")
            list_watch = (tmp / "list.txt").read_text().split()
            sh(tmp, "stepup", "join")
            rc_watch = director.wait(timeout=60)
        # Restart on the very same files.
        with open(tmp / "stdout2.txt", "w") as out:
            rc_restart = sh(
                tmp, "stepup", "build", "-j", "1", stdout=out, stderr=subprocess.STDOUT
            ).returncode
        list_restart = (tmp / "list.txt").read_text().split()
        print("--- watching director")
        print((tmp / "stdout1.txt").read_text())
        print("--- after the restart")
        print((tmp / "stdout2.txt").read_text())
        print(f"matches after `stepup rebuild` (rc={rc_watch}): {list_watch}")
        print(f"matches after a restart       (rc={rc_restart}): {list_restart}")
        if list_watch != list_restart:
            print(
                "DEFECT (C14): the rebuild in the watching director did not notice "
                "data/b/inp.txt (0 jobs), a restart on the same files reruns ./plan.py."
            )
            return 1
        print("No difference.")
        return 0
    finally:
        shutil.rmtree(tmp, ignore_errors=True)


if __name__ == "__main__":
    sys.exit(main())
