#!/usr/bin/env python3
"""C10/C03: a step that is still RUNNING is reset to PENDING by a new declaration and starts twice.

Run as: cd /tmp/hunt_R && PYTHONPATH=/tmp/hunt_R /venv/bin/python _found/2/demo.py

Part A drives an in-memory workflow and scheduler with public methods only, in the order of
the real program: `Workflow.define_step` (the `define_step` RPC), `Scheduler.pop_next_job`
(the builder's job loop), `Step.mark_completed` (the executor, after the command ended) and
`Scheduler.record_job_completed` (`Builder.handle_done_tasks`).

Part B is a real `stepup build -j 4` of a small project that goes through the same history.
"""

import asyncio
import os
import shutil
import subprocess
import sys
import tempfile
from pathlib import Path

ROOT = "/tmp/hunt_R"
sys.path.insert(0, ROOT)

from stepup.core.enums import Need, StepState  # noqa: E402
from stepup.core.scheduler import Scheduler  # noqa: E402
from stepup.core.sqlite3 import DBSession  # noqa: E402
from stepup.core.workflow import Workflow  # noqa: E402


async def part_a() -> bool:
    with DBSession.open(":memory:") as db:
        wf = Workflow(db, dir_queue=None)
        await wf.initialize()
        sched = Scheduler(wf, db=db)
        await sched.initialize(None)
        async with db:
            wf.define_step(wf.root, "./driver.py", need=Need.PLAN, _safe=True)
        job_driver1 = await sched.pop_next_job()
        driver = job_driver1.step
        # The running driver defines a work step, which is dispatched right away.
        async with db:
            wf.define_step(driver, "./work.py", out_paths=["a.txt"])
        job_work1 = await sched.pop_next_job()
        work = job_work1.step
        # The driver is deferred (amended input not available yet): PENDING, products stay.
        async with db:
            driver.mark_completed(None, True)
        sched.record_job_completed(job_driver1)
        # The driver is dispatched again. Its reset detaches ./work.py, which keeps running.
        job_driver2 = await sched.pop_next_job()
        assert job_driver2.step.i == driver.i
        async with db:
            assert work.is_detached()
            assert work.get_state() == StepState.RUNNING
            # This time the driver declares ./work.py with one more output.
            wf.define_step(driver, "./work.py", out_paths=["a.txt", "b.txt"])
            state = work.get_state()
        print(f"A: state of ./work.py after the second declaration: {state.name}")
        print(f"A: jobs in flight: { {i: s.label for i, s in sched.jobs.items()} }")
        job_work2 = await sched.pop_next_job()
        if job_work2 is not None and job_work2.step.i == work.i:
            print(
                f"A: DEFECT: ./work.py handed out again as job {job_work2.job_i}, "
                f"while job {job_work1.job_i} of the same step is still in flight."
            )
            return True
        print("A: ./work.py was not handed out a second time.")
        return False


PLAN = """\
#!/usr/bin/env python3
from stepup.core.api import static, step

static("driver.py", "work.py", "gate.py")
step("./gate.py", inp="gate.py", out="gate.txt")
step("./driver.py", inp="driver.py")
"""

DRIVER = """\
#!/usr/bin/env python3
import time

from path import Path

from stepup.core.api import amend, step

# The outputs of the work step depend on gate.txt, once it is there.
outs = ["a.txt"]
if Path("gate.txt").exists():
    outs.append("b.txt")
step("./work.py", inp="work.py", out=outs)
while not Path("started.log").exists():
    time.sleep(0.1)
with open("go.txt", "w") as fh:
    fh.write("go")
# The first run is deferred here: gate.txt is not built yet.
amend(inp="gate.txt")
time.sleep(1.0)
with open("finish.txt", "w") as fh:
    fh.write("go")
"""

GATE = """\
#!/usr/bin/env python3
import time

from path import Path

while not Path("go.txt").exists():
    time.sleep(0.1)
with open("gate.txt", "w") as fh:
    fh.write("open")
"""

WORK = """\
#!/usr/bin/env python3
import os
import time

from path import Path

with open("started.log", "a") as fh:
    print("pid", os.getpid(), "job", os.environ["STEPUP_JOB_I"], "t", time.time(), file=fh)
with open("started.log") as fh:
    second = len(fh.readlines()) > 1
while not Path("finish.txt").exists():
    time.sleep(0.1)
if second:
    # The execution that started last also ends last, well after the first one.
    time.sleep(1.5)
for name in "a.txt", "b.txt":
    with open(name, "w") as fh:
        # Like many real tools, the output is not bit-wise reproducible.
        fh.write(f"work done by process {os.getpid()}")
with open("finished.log", "a") as fh:
    print("pid", os.getpid(), "job", os.environ["STEPUP_JOB_I"], "t", time.time(), file=fh)
"""


def part_b() -> bool:
    env = os.environ | {
        "PATH": "/venv/bin:" + os.environ.get("PATH", ""),
        "PYTHONPATH": ROOT,
        "PYTHONUNBUFFERED": "yes",
        "COLUMNS": "100",
        "STEPUP_DEBUG": "1",
    }
    env.pop("STEPUP_ROOT", None)
    env.pop("STEPUP_DIRECTOR_SOCKET", None)
    tmp = Path(tempfile.mkdtemp(prefix="hunt_R_found2_"))
    try:
        for name, text in ("plan", PLAN), ("driver", DRIVER), ("gate", GATE), ("work", WORK):
            path = tmp / f"{name}.py"
            path.write_text(text)
            os.chmod(path, 0o755)
        proc = subprocess.run(
            ["stepup", "build", "-j", "4"],
            cwd=tmp,
            env=env,
            stdin=subprocess.DEVNULL,
            stdout=subprocess.PIPE,
            stderr=subprocess.STDOUT,
            text=True,
            timeout=120,
        )
        print(proc.stdout)
        started = (tmp / "started.log").read_text().splitlines()
        finished = (tmp / "finished.log").read_text().splitlines()
        print("B: started.log :", started)
        print("B: finished.log:", finished)
        nstart = proc.stdout.count("START │ ./work.py")
        print(f"B: return code {proc.returncode}; `START ./work.py` reported {nstart} time(s)")
        if len(started) == 2:
            t_start2 = float(started[1].split()[-1])
            t_end1 = float(finished[0].split()[-1])
            overlap = t_start2 < t_end1
            print(
                "B: DEFECT: the command of the single step ./work.py was executed twice"
                + (", and the two processes ran at the same time." if overlap else ".")
            )
            if "ConsistencyError: Unexpected file hash update" in proc.stdout:
                print(
                    "B: DEFECT: the second completion found its output BUILT already "
                    "and the director died with a ConsistencyError."
                )
            return True
        print("B: ./work.py was executed once.")
        return False
    finally:
        shutil.rmtree(tmp, ignore_errors=True)


def main() -> int:
    defect_a = asyncio.run(part_a())
    defect_b = part_b()
    return 1 if (defect_a or defect_b) else 0


if __name__ == "__main__":
    sys.exit(main())
