#!/usr/bin/env python3
"""C14: a new glob match for a DETACHED step is dropped by the watcher, but found by a restart.

Run as: cd /tmp/hunt_R && PYTHONPATH=/tmp/hunt_R /venv/bin/python _found/1/demo.py

Only the public command line is used (`stepup build -w`, `stepup wait`, `stepup rebuild`,
`stepup join`), in the order a user would type the commands.
The same history is played twice in two fresh directories.
The only difference is the last step: `stepup rebuild` in the watching director,
versus stopping the director and starting `stepup build` again on the same files.
"""

import os
import shutil
import subprocess
import sys
import tempfile
import time
from pathlib import Path

ROOT = "/tmp/hunt_R"
ENV = os.environ | {
    "PATH": "/venv/bin:" + os.environ.get("PATH", ""),
    "PYTHONPATH": ROOT,
    "PYTHONUNBUFFERED": "yes",
    "COLUMNS": "100",
    "STEPUP_DEBUG": "1",
}
ENV.pop("STEPUP_ROOT", None)
ENV.pop("STEPUP_DIRECTOR_SOCKET", None)

PLAN = """\
#!/usr/bin/env python3
from stepup.core.api import amend, static, step

static("cfg.txt", "gen.py")
amend(inp="cfg.txt")
with open("cfg.txt") as fh:
    on = fh.read().strip() == "on"
if on:
    step("./gen.py", inp=["gen.py"], out=["list.txt"])
step("cp list.txt copy.txt", inp=["list.txt"], out=["copy.txt"], shell=True)
"""

GEN = """\
#!/usr/bin/env python3
from stepup.core.api import glob, static

static("data/")
paths = glob("data/*.txt")
with open("list.txt", "w") as fh:
    for p in sorted(str(p) for p in paths):
        print(p, file=fh)
"""


def sh(workdir, *args, **kwargs):
    return subprocess.run(
        args, cwd=workdir, env=ENV, stdin=subprocess.DEVNULL, timeout=90, **kwargs
    )


def prepare(workdir: Path):
    (workdir / "data").mkdir()
    (workdir / "data/a.txt").write_text("one\n")
    (workdir / "cfg.txt").write_text("on\n")
    (workdir / "plan.py").write_text(PLAN)
    (workdir / "gen.py").write_text(GEN)
    os.chmod(workdir / "plan.py", 0o755)
    os.chmod(workdir / "gen.py", 0o755)


def common_history(workdir: Path):
    """Build with gen.py, drop gen.py from the plan, add data/b.txt, put gen.py back."""
    out = open(workdir / "stdout1.txt", "w")
    director = subprocess.Popen(
        ["stepup", "build", "-j", "1", "-w"],
        cwd=workdir,
        env=ENV,
        stdin=subprocess.DEVNULL,
        stdout=out,
        stderr=subprocess.STDOUT,
    )
    sh(workdir, "stepup", "wait", stdout=subprocess.DEVNULL, stderr=subprocess.DEVNULL)
    assert (workdir / "list.txt").read_text() == "data/a.txt\n"
    # 1. The plan no longer defines ./gen.py: the step becomes detached.
    #    It survives, because `cp list.txt copy.txt` still uses its output (incomplete build).
    (workdir / "cfg.txt").write_text("off\n")
    sh(workdir, "stepup", "wait", "-u", "cfg.txt")
    sh(workdir, "stepup", "rebuild")
    sh(workdir, "stepup", "wait")
    # 2. While ./gen.py is detached, a new match of its pattern appears.
    (workdir / "data/b.txt").write_text("two\n")
    time.sleep(1.0)
    # 3. The plan defines ./gen.py again, unchanged.
    (workdir / "cfg.txt").write_text("on\n")
    sh(workdir, "stepup", "wait", "-u", "cfg.txt")
    return director, out


def play_watch(workdir: Path) -> tuple[str, int]:
    director, out = common_history(workdir)
    sh(workdir, "stepup", "rebuild")
    sh(workdir, "stepup", "wait")
    sh(workdir, "stepup", "join")
    returncode = director.wait(timeout=60)
    out.close()
    return (workdir / "list.txt").read_text(), returncode


def play_restart(workdir: Path) -> tuple[str, int]:
    director, out = common_history(workdir)
    sh(workdir, "stepup", "join")
    director.wait(timeout=60)
    out.close()
    with open(workdir / "stdout2.txt", "w") as out2:
        returncode = sh(
            workdir, "stepup", "build", "-j", "1", stdout=out2, stderr=subprocess.STDOUT
        ).returncode
    return (workdir / "list.txt").read_text(), returncode


def main() -> int:
    tmp = Path(tempfile.mkdtemp(prefix="hunt_R_found1_"))
    try:
        (tmp / "watch").mkdir()
        (tmp / "restart").mkdir()
        prepare(tmp / "watch")
        prepare(tmp / "restart")
        list_watch, rc_watch = play_watch(tmp / "watch")
        list_restart, rc_restart = play_restart(tmp / "restart")
        print("--- director output of the last watch-mode rebuilds")
        print((tmp / "watch/stdout1.txt").read_text())
        print("--- director output after the restart")
        print((tmp / "restart/stdout2.txt").read_text())
        print(f"list.txt after `stepup rebuild` (rc={rc_watch}): {list_watch.split()}")
        print(f"list.txt after a restart       (rc={rc_restart}): {list_restart.split()}")
        if list_watch != list_restart or rc_watch != rc_restart:
            print(
                "DEFECT (C14): the watch-mode rebuild recycled and skipped ./gen.py with a stale "
                "match set; data/b.txt is missing from list.txt. "
                "A restart on the same files reruns ./gen.py and lists it."
            )
            return 1
        print("No difference between the watch-mode rebuild and the restart.")
        return 0
    finally:
        shutil.rmtree(tmp, ignore_errors=True)


if __name__ == "__main__":
    sys.exit(main())
