#!/usr/bin/env python3
"""C17: a `[...]` wildcard is copied verbatim into the regex, so it can match `/` (and more).

Run as: cd /tmp/hunt_M && PYTHONPATH=/tmp/hunt_M /venv/bin/python _found/2/demo.py

Part A uses `NamedGlob` exactly as StepUp does: `glob()` for a scan (api.glob, startup.rescan_nglobs)
and `will_change()` for the incremental update (Workflow.process_nglob_changes).
Part B is a real `stepup build` in a temporary directory: a correct plan is rejected.
"""

import contextlib
import glob as stdglob
import os
import shutil
import subprocess
import sys
import tempfile

from stepup.core.nglob import NamedGlob, convert_nglob_to_regex

ENV = os.environ | {
    "PATH": "/venv/bin:" + os.environ.get("PATH", ""),
    "PYTHONPATH": "/tmp/hunt_M",
}
ENV.pop("STEPUP_ROOT", None)
ENV.pop("STEPUP_DEBUG", None)

PATTERN = "chapter[!0-9]*.md"

PLAN = f"""\
#!/usr/bin/env python3
from stepup.core.api import glob, step

# "Every chapter file whose name does not continue with a digit", e.g. chapter_intro.md.
print("MATCHES:", glob("{PATTERN}").files())
# A build product in a directory that merely shares the name prefix.
step("echo hi > chapter/intro.md", shell=True, out="chapter/intro.md")
"""


def part_a(workdir):
    """Incremental update versus a fresh scan of the same tree."""
    failures = 0
    with contextlib.chdir(workdir):
        os.mkdir("chapter")
        print(f"pattern {PATTERN!r} -> regex {convert_nglob_to_regex(PATTERN)!r}")

        # Scan of the initial tree: nothing matches.
        recorded = NamedGlob(PATTERN)
        recorded.glob()
        print("  scan of initial tree           :", recorded.files())

        # A file is added below the sibling directory (what the watcher would report).
        with open("chapter/intro.md", "w") as fh:
            fh.write("hi\n")
        evolved = recorded.will_change(deleted=set(), added={"chapter/intro.md"})
        updated = [] if evolved is None else evolved.files()
        rescanned = NamedGlob(PATTERN)
        rescanned.glob()
        reference = sorted(stdglob.glob(PATTERN, recursive=True, include_hidden=True))
        print("  will_change(added=chapter/intro.md):", updated)
        print("  fresh NamedGlob.glob()             :", rescanned.files())
        print("  glob.glob (standard library)       :", reference)
        if [str(p) for p in updated] != [str(p) for p in rescanned.files()]:
            print("  DEFECT: the incremental update and a fresh scan disagree.")
            failures += 1

        # The same verbatim copy gives `[^x]` and `[\\d]` regex semantics instead of glob semantics.
        for name in ["^c.py", "_b.py", "a.py"]:
            open(name, "w").close()
        ng = NamedGlob("[^_]*.py")
        ng.glob()
        reference = sorted(stdglob.glob("[^_]*.py"))
        print("pattern '[^_]*.py'")
        print("  recorded by NamedGlob.glob():", [str(p) for p in ng.files()])
        print("  glob.glob                   :", reference)
        if [str(p) for p in ng.files()] != reference:
            print("  DEFECT: recorded set is not what a standard glob returns.")
            failures += 1
    return failures


def part_b(workdir):
    """A real build: the plan is correct, yet define_step is refused."""
    with open(os.path.join(workdir, "plan.py"), "w") as fh:
        fh.write(PLAN)
    os.chmod(os.path.join(workdir, "plan.py"), 0o755)
    proc = subprocess.run(
        ["stepup", "build", "-j", "1"],
        cwd=workdir,
        env=ENV,
        stdin=subprocess.DEVNULL,
        stdout=subprocess.PIPE,
        stderr=subprocess.STDOUT,
        text=True,
        timeout=120,
    )
    built = os.path.isfile(os.path.join(workdir, "chapter", "intro.md"))
    print(f"real build: return code {proc.returncode}, chapter/intro.md built: {built}")
    if "GraphError: Glob pattern" in proc.stdout or not built:
        print("  DEFECT: the build is refused because the stored regex matches chapter/intro.md,")
        print("  a path that the glob pattern can never return. Relevant output:")
        for line in proc.stdout.splitlines():
            if "GraphError" in line or "FAIL" in line:
                print("   ", line)
        return 1
    return 0


def main():
    failures = 0
    for part in part_a, part_b:
        workdir = tempfile.mkdtemp(prefix="hunt_M_2_")
        try:
            failures += part(workdir)
        finally:
            shutil.rmtree(workdir, ignore_errors=True)
    if failures:
        print(f"{failures} violation(s) of C17.")
        return 1
    print("OK")
    return 0


if __name__ == "__main__":
    sys.exit(main())
