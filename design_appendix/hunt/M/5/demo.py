#!/usr/bin/env python3
"""C13: two different (env_values, env_overrides) configurations share one input digest.

Run as: cd /tmp/hunt_M && PYTHONPATH=/tmp/hunt_M /venv/bin/python _found/5/demo.py

Only the public `StepHash.from_inp` is used, with the argument types that
`Executor` passes to it (a label, file hashes, tracked variables, overrides).
"""

import sys

from stepup.core.hash import StepHash, compare_step_hashes

LABEL = "echo X=${X:-unset} > out.txt"


def main():
    # Configuration A: the step tracks the environment variable `__env_overrides__`
    # (current value "X") and overrides nothing.
    hash_a = StepHash.from_inp(
        LABEL, {}, {"__env_overrides__": "X"}, explained=True, shell=True, env_overrides={}
    )
    # Configuration B: the step tracks nothing and runs its command with X=__env_overrides__.
    hash_b = StepHash.from_inp(
        LABEL, {}, {}, explained=True, shell=True, env_overrides={"X": "__env_overrides__"}
    )
    print("A: env_values={'__env_overrides__': 'X'}, env_overrides={}")
    print("B: env_values={}, env_overrides={'X': '__env_overrides__'}")
    print("inp_digest A:", hash_a.inp_digest.hex())
    print("inp_digest B:", hash_b.inp_digest.hex())
    changed, _ = compare_step_hashes(hash_a, hash_b)
    print("compare_step_hashes reports as changed:")
    print(changed)
    if hash_a.inp_digest == hash_b.inp_digest:
        print()
        print("DEFECT: the configurations differ in a tracked variable and in an override,")
        print("yet they share the input digest that skip decisions compare.")
        return 1
    print("OK")
    return 0


if __name__ == "__main__":
    sys.exit(main())
