#!/usr/bin/env python3
"""C17/C20: `glob("**")` in a step with a working directory is rescanned differently by the director.

Run as: cd /tmp/hunt_M && PYTHONPATH=/tmp/hunt_M /venv/bin/python _found/6/demo.py

Three plain `stepup build` runs in a temporary directory, with no change in between.
Public API only: `static`, `plan(..., workdir=...)` and `glob("**")`.
"""

import os
import shutil
import subprocess
import sys
import tempfile

ENV = os.environ | {
    "PATH": "/venv/bin:" + os.environ.get("PATH", ""),
    "PYTHONPATH": "/tmp/hunt_M",
}
for name in "STEPUP_ROOT", "STEPUP_DEBUG", "HERE", "ROOT":
    ENV.pop(name, None)

PLAN = """\
#!/usr/bin/env python3
from stepup.core.api import plan, static

static("sub/")
plan("./plan.py", workdir="sub/")
"""

SUB_PLAN = """\
#!/usr/bin/env python3
from stepup.core.api import glob

matches = [str(p) for p in glob("**")]
with open("../runs.log", "a") as fh:
    print(matches, file=fh)
"""


def main():
    workdir = tempfile.mkdtemp(prefix="hunt_M_6_")
    try:
        os.makedirs(os.path.join(workdir, "sub", "data"))
        with open(os.path.join(workdir, "sub", "data", "a.txt"), "w") as fh:
            fh.write("x\n")
        for path, text in ("plan.py", PLAN), ("sub/plan.py", SUB_PLAN):
            with open(os.path.join(workdir, path), "w") as fh:
                fh.write(text)
            os.chmod(os.path.join(workdir, path), 0o755)

        nruns = []
        outputs = []
        for _ in range(3):
            proc = subprocess.run(
                ["stepup", "build", "-j", "1"],
                cwd=workdir,
                env=ENV,
                stdin=subprocess.DEVNULL,
                stdout=subprocess.PIPE,
                stderr=subprocess.STDOUT,
                text=True,
                timeout=120,
            )
            outputs.append(proc.stdout)
            with open(os.path.join(workdir, "runs.log")) as fh:
                lines = fh.read().splitlines()
            nruns.append(len(lines))
        print("matches seen by the step (scan in its working directory):", lines[0])
        print("number of executions of sub/plan.py after build 1, 2, 3:", nruns)
        if nruns != [1, 1, 1]:
            print()
            print("DEFECT: nothing changed between the builds, yet every restart reports a new")
            print("match and runs the step again. The director rescans the translated pattern")
            print("sub/** from the root, where it also matches sub/ itself:")
            for line in outputs[1].splitlines():
                if "UPDATED" in line or "nglob" in line or "START" in line or "Ran " in line:
                    print("   ", line)
            return 1
        print("OK")
        return 0
    finally:
        shutil.rmtree(workdir, ignore_errors=True)


if __name__ == "__main__":
    sys.exit(main())
