#!/usr/bin/env python3
"""C20: with an absolute working directory, one relative path gets two different labels.

Run as: cd /tmp/hunt_M && PYTHONPATH=/tmp/hunt_M /venv/bin/python _found/4/demo.py

Part A calls `translate()` the way `api.step()` (in the declaring step) and `api.amend()`
(in the declared step, with the `HERE`/`ROOT` variables set by `Executor._run_command`) call it.
Part B is a real `stepup build` in a temporary directory, public API only.
"""

import contextlib
import os
import shutil
import subprocess
import sys
import tempfile

from path import Path

from stepup.core.path import translate

ENV = os.environ | {
    "PATH": "/venv/bin:" + os.environ.get("PATH", ""),
    "PYTHONPATH": "/tmp/hunt_M",
}
for name in "STEPUP_ROOT", "STEPUP_DEBUG", "HERE", "ROOT":
    ENV.pop(name, None)

PLAN = """\
#!/usr/bin/env python3
import os
from stepup.core.api import static, step

ext = os.path.abspath("../ext")
static("work.py", f"{ext}/in.txt")
# A step that runs in an absolute working directory, with paths relative to that directory.
step("../project/work.py", workdir=ext, inp="in.txt", out="out.txt")
"""

WORK = """\
#!/usr/bin/env python3
from stepup.core.api import amend

# The very same relative path, in the very same directory, now declared by the step itself.
amend(inp="in.txt")
with open("in.txt") as fi, open("out.txt", "w") as fo:
    fo.write(fi.read())
"""


def part_a(base):
    failures = 0
    root = Path(base) / "project"
    ext = Path(base) / "ext"
    with contextlib.chdir(root):
        for name in "STEPUP_ROOT", "HERE", "ROOT":
            os.environ.pop(name, None)
        # 1. The declaring step (plan.py, running in the root): api.step() does
        #    translate(inp_path, su_workdir).
        by_creator = translate("in.txt", ext)
        by_creator_inside = translate("../project/work.py", ext)
        # 2. The declared step: Executor._run_command sets HERE and runs it in `ext`.
        here = str(Path(ext).relpath())
        root_var = str(Path.cwd().relpath(ext))
    with contextlib.chdir(ext):
        os.environ["HERE"] = here
        os.environ["ROOT"] = root_var
        os.environ["STEPUP_ROOT"] = str(root)
        try:
            by_step = translate("in.txt")
            by_step_inside = translate("../project/work.py")
        finally:
            for name in "STEPUP_ROOT", "HERE", "ROOT":
                os.environ.pop(name, None)
    print(f"'in.txt' in workdir {ext}:")
    print(f"  recorded for step(workdir=..., inp='in.txt') : {by_creator}")
    print(f"  recorded for amend(inp='in.txt') in the step : {by_step}")
    if by_creator != by_step:
        print("  DEFECT: one file, one spelling, one directory, two labels.")
        failures += 1
    print("'../project/work.py' (a file inside the project root) in the same workdir:")
    print(f"  recorded for step(...)  : {by_creator_inside}")
    print(f"  recorded for amend(...) : {by_step_inside}")
    if by_creator_inside != "work.py":
        print("  DEFECT: a file inside the root is not recorded by its root-relative path.")
        failures += 1
    return failures


def part_b(base):
    root = os.path.join(base, "project")
    ext = os.path.join(base, "ext")
    for name, text in ("plan.py", PLAN), ("work.py", WORK):
        with open(os.path.join(root, name), "w") as fh:
            fh.write(text)
        os.chmod(os.path.join(root, name), 0o755)
    with open(os.path.join(ext, "in.txt"), "w") as fh:
        fh.write("data\n")
    proc = subprocess.run(
        ["stepup", "build", "-j", "1"],
        cwd=root,
        env=ENV,
        stdin=subprocess.DEVNULL,
        stdout=subprocess.PIPE,
        stderr=subprocess.STDOUT,
        text=True,
        timeout=120,
    )
    built = os.path.isfile(os.path.join(ext, "out.txt"))
    print(f"real build: return code {proc.returncode}, out.txt built: {built}")
    if not built:
        print("  DEFECT: in.txt is declared static, exists, and is an accepted input of the step,")
        print("  yet the step's own amend(inp='in.txt') is 'unavailable' and the step never finishes:")
        for line in proc.stdout.splitlines():
            if "in.txt" in line or "DEFERRED" in line or "pending" in line:
                print("   ", line)
        return 1
    return 0


def main():
    base = tempfile.mkdtemp(prefix="hunt_M_4_")
    try:
        os.mkdir(os.path.join(base, "project"))
        os.mkdir(os.path.join(base, "ext"))
        failures = part_a(base) + part_b(base)
    finally:
        shutil.rmtree(base, ignore_errors=True)
    if failures:
        print(f"{failures} violation(s) of C20.")
        return 1
    print("OK")
    return 0


if __name__ == "__main__":
    sys.exit(main())
