#!/usr/bin/env python3
"""C17: a directory that starts matching a registered glob pattern is not noticed in watch mode.

Run as: cd /tmp/hunt_M && PYTHONPATH=/tmp/hunt_M /venv/bin/python _found/1/demo.py

A real `stepup build -w` is started in a temporary directory.
Only the public command-line tools are used, in the order a user would use them:
`stepup build -w`, `stepup wait`, (mkdir), `stepup wait -u`, `stepup rebuild`, `stepup wait`,
`stepup join`, and finally a plain `stepup build` (restart, which rescans the patterns).
"""

import os
import shutil
import signal
import subprocess
import sys
import tempfile
import textwrap

ENV = os.environ | {
    "PATH": "/venv/bin:" + os.environ.get("PATH", ""),
    "PYTHONPATH": "/tmp/hunt_M",
    "PYTHONUNBUFFERED": "yes",
}
ENV.pop("STEPUP_ROOT", None)
ENV.pop("STEPUP_DEBUG", None)

PLAN = """\
#!/usr/bin/env python3
from stepup.core.api import glob, static, step

static("cases/", "trigger.txt")
# The documented idiom for directory matches (see tests/examples/static_tree_glob_dir).
matches = sorted(str(p) for p in glob("cases/*/"))
with open("runs.log", "a") as fh:
    print(matches, file=fh)
# An unrelated step, only used by the demo to know when the watcher has caught up.
step("cp trigger.txt copy.txt", inp="trigger.txt", out="copy.txt")
"""


def sh(cmd, cwd, **kwargs):
    return subprocess.run(
        cmd, cwd=cwd, env=ENV, stdin=subprocess.DEVNULL, check=True, timeout=60, **kwargs
    )


def runs(workdir):
    with open(os.path.join(workdir, "runs.log")) as fh:
        return [line.strip() for line in fh]


def main():
    workdir = tempfile.mkdtemp(prefix="hunt_M_1_")
    director = None
    try:
        with open(os.path.join(workdir, "plan.py"), "w") as fh:
            fh.write(PLAN)
        os.chmod(os.path.join(workdir, "plan.py"), 0o755)
        os.makedirs(os.path.join(workdir, "cases", "a"))
        with open(os.path.join(workdir, "trigger.txt"), "w") as fh:
            fh.write("one\n")

        with open(os.path.join(workdir, "stdout1.txt"), "w") as out:
            director = subprocess.Popen(
                ["stepup", "build", "-j", "1", "-w"],
                cwd=workdir,
                env=ENV,
                stdin=subprocess.DEVNULL,
                stdout=out,
                stderr=subprocess.STDOUT,
                start_new_session=True,
            )
        sh(["stepup", "wait"], workdir)
        print("after first build     :", runs(workdir))

        # The user adds a new case directory while StepUp is watching.
        os.mkdir(os.path.join(workdir, "cases", "b"))
        # An unrelated file is modified afterwards. inotify delivers events in order,
        # so once the watcher reports this update it has certainly seen the mkdir.
        with open(os.path.join(workdir, "trigger.txt"), "w") as fh:
            fh.write("two\n")
        sh(["stepup", "wait", "-u", "trigger.txt"], workdir)
        sh(["stepup", "rebuild"], workdir)
        sh(["stepup", "wait"], workdir)
        watch_runs = runs(workdir)
        print("after watch + rebuild :", watch_runs)
        sh(["stepup", "join"], workdir)
        director.wait(timeout=60)
        director = None

        # A restart rescans the patterns (startup.rescan_nglobs).
        with open(os.path.join(workdir, "stdout2.txt"), "w") as out:
            sh(["stepup", "build", "-j", "1"], workdir, stdout=out, stderr=subprocess.STDOUT)
        restart_runs = runs(workdir)
        print("after restart         :", restart_runs)

        expected = "['cases/a/', 'cases/b/']"
        noticed_in_watch = watch_runs[-1] == expected
        noticed_at_restart = restart_runs[-1] == expected and len(restart_runs) > len(watch_runs)
        if not noticed_in_watch:
            print()
            print(
                textwrap.dedent(
                    f"""\
                    DEFECT: cases/b/ was created while `stepup build -w` was watching.
                    plan.py registered glob("cases/*/"), whose matcher accepts cases/b/,
                    yet the watch-mode rebuild did not run plan.py again
                    (runs.log still ends with {watch_runs[-1]}).
                    Rescanning the same pattern at a restart does pick it up: {noticed_at_restart}.
                    So updating the recorded match set from the watcher's change lists
                    does not give the same result as scanning the file system again."""
                )
            )
            with open(os.path.join(workdir, "stdout1.txt")) as fh:
                print("\n--- output of stepup build -w ---")
                print(fh.read())
            return 1
        print("OK: the new directory was noticed in watch mode.")
        return 0
    finally:
        if director is not None and director.poll() is None:
            # Only the process group this script started.
            try:
                os.killpg(director.pid, signal.SIGTERM)
            except ProcessLookupError:
                pass
            try:
                director.wait(timeout=10)
            except subprocess.TimeoutExpired:
                os.killpg(director.pid, signal.SIGKILL)
        shutil.rmtree(workdir, ignore_errors=True)


if __name__ == "__main__":
    sys.exit(main())
