#!/usr/bin/env python3
"""C18: the directory build target `./` (the project root) selects nothing.

Run as: cd /tmp/hunt_M && PYTHONPATH=/tmp/hunt_M /venv/bin/python _found/3/demo.py

Real `stepup build` runs in a temporary directory, public CLI only:
`stepup build ./` in a fresh project, compared with `stepup build sub/` and `stepup build`.
"""

import os
import shutil
import subprocess
import sys
import tempfile

ENV = os.environ | {
    "PATH": "/venv/bin:" + os.environ.get("PATH", ""),
    "PYTHONPATH": "/tmp/hunt_M",
}
ENV.pop("STEPUP_ROOT", None)
ENV.pop("STEPUP_DEBUG", None)

PLAN = """\
#!/usr/bin/env python3
from stepup.core.api import step

step("echo hi > top.txt", shell=True, out="top.txt")
step("echo hi > sub/deep.txt", shell=True, out="sub/deep.txt")
"""


def build(workdir, *targets):
    proc = subprocess.run(
        ["stepup", "build", "-j", "1", *targets],
        cwd=workdir,
        env=ENV,
        stdin=subprocess.DEVNULL,
        stdout=subprocess.PIPE,
        stderr=subprocess.STDOUT,
        text=True,
        timeout=120,
    )
    present = [
        path for path in ("top.txt", "sub/deep.txt") if os.path.isfile(os.path.join(workdir, path))
    ]
    return proc, present


def fresh_project():
    workdir = tempfile.mkdtemp(prefix="hunt_M_3_")
    with open(os.path.join(workdir, "plan.py"), "w") as fh:
        fh.write(PLAN)
    os.chmod(os.path.join(workdir, "plan.py"), 0o755)
    return workdir


def main():
    failed = False
    # Reference: a subdirectory target elevates exactly the outputs under it.
    workdir = fresh_project()
    try:
        _, present = build(workdir, "sub/")
        print("stepup build sub/  built:", present)
    finally:
        shutil.rmtree(workdir, ignore_errors=True)

    # The root directory as a directory target: every output lies under it.
    for spelling in ("./", "sub/../"):
        workdir = fresh_project()
        try:
            proc, present = build(workdir, spelling)
            print(f"stepup build {spelling:8s} built:", present)
            if present != ["top.txt", "sub/deep.txt"]:
                failed = True
                print(f"  DEFECT: top.txt and sub/deep.txt both lie under {spelling},")
                print("  yet the directory target selected neither of them:")
                for line in proc.stdout.splitlines():
                    if "WARNING" in line or "Ran " in line:
                        print("   ", line)
        finally:
            shutil.rmtree(workdir, ignore_errors=True)

    if failed:
        return 1
    print("OK")
    return 0


if __name__ == "__main__":
    sys.exit(main())
