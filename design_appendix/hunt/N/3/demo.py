#!/usr/bin/env python3
"""Moving a step from a nested plan into its parent makes every later `stepup build -j1` fail.

Run as: cd /tmp/hunt_N && PYTHONPATH=/tmp/hunt_N /venv/bin/python _found/3/demo.py

History (real `stepup build -j 1` runs in a temporary directory):

1. build: plan.py -> plan("./sub.py"); sub.py defines `echo hi > x.txt`.
2. Two source files are edited: sub.py no longer defines the step,
   plan.py defines it instead (after its `plan("./sub.py")` call). build, build, build.

Expected: ./plan.py and ./sub.py (both consume an edited file) run again and the build succeeds,
as a from-scratch build of the same sources does.
Observed: ./plan.py fails with "Step (echo hi > x.txt) is defined by both step (./plan.py) and
step (./sub.py)", ./sub.py is never run again, and every following build fails in the same way.
"""

import os
import shutil
import subprocess
import sys
import tempfile

PLAN_1 = """\
#!/usr/bin/env python3
from stepup.core.api import static, plan, run
static("sub.py")
plan("./sub.py")
"""

SUB_1 = """\
#!/usr/bin/env python3
from stepup.core.api import run
run("echo hi > x.txt", shell=True, out=["x.txt"])
"""

PLAN_2 = """\
#!/usr/bin/env python3
from stepup.core.api import static, plan, run
static("sub.py")
plan("./sub.py")
run("echo hi > x.txt", shell=True, out=["x.txt"])
"""

SUB_2 = """\
#!/usr/bin/env python3
from stepup.core.api import run
"""


def write(path, content):
    with open(path, "w") as fh:
        fh.write(content)
    os.chmod(path, 0o755)


def build(workdir, env):
    proc = subprocess.run(
        ["stepup", "build", "--no-progress", "-j", "1"],
        cwd=workdir,
        env=env,
        stdin=subprocess.DEVNULL,
        stdout=subprocess.PIPE,
        stderr=subprocess.STDOUT,
        text=True,
        check=False,
    )
    return proc.returncode, proc.stdout


def summary(out):
    keep = ("START", "SUCCESS", "FAIL │", "SKIP", "GraphError", "Ran ", "WARNING")
    return "\n".join(line[:170] for line in out.splitlines() if any(k in line for k in keep))


def main():
    tmp = tempfile.mkdtemp(prefix="hunt_N_demo3_")
    try:
        env = {k: v for k, v in os.environ.items() if not k.startswith("STEPUP_")}
        env["PATH"] = "/venv/bin:" + env.get("PATH", "")
        env["PYTHONPATH"] = "/tmp/hunt_N"
        env["HOME"] = tmp

        # Reference: a from-scratch build of the final sources.
        refdir = os.path.join(tmp, "ref")
        os.mkdir(refdir)
        write(os.path.join(refdir, "plan.py"), PLAN_2)
        write(os.path.join(refdir, "sub.py"), SUB_2)
        rc_ref, out_ref = build(refdir, env)
        print("=== from-scratch build of the final sources: rc", rc_ref)
        print(summary(out_ref))

        workdir = os.path.join(tmp, "w")
        os.mkdir(workdir)
        write(os.path.join(workdir, "plan.py"), PLAN_1)
        write(os.path.join(workdir, "sub.py"), SUB_1)
        rc1, out1 = build(workdir, env)
        print("=== build 1: rc", rc1)
        print(summary(out1))
        if rc1 != 0 or rc_ref != 0:
            print("UNEXPECTED: the reference builds must succeed")
            return 2

        write(os.path.join(workdir, "plan.py"), PLAN_2)
        write(os.path.join(workdir, "sub.py"), SUB_2)
        rcs = []
        sub_ran = False
        for i in (2, 3, 4):
            rc, out = build(workdir, env)
            rcs.append(rc)
            sub_ran = sub_ran or "START │ ./sub.py" in out
            print(f"=== build {i} (step moved from sub.py to plan.py): rc", rc)
            print(summary(out))
        if all(rc != 0 for rc in rcs) and not sub_ran:
            print(
                f"DEFECT: return codes {rcs} for three consecutive builds of sources that build "
                "cleanly from scratch; ./sub.py was edited but is never run again."
            )
            return 1
        print("OK: the incremental build recovered")
        return 0
    finally:
        shutil.rmtree(tmp, ignore_errors=True)


if __name__ == "__main__":
    sys.exit(main())
