#!/usr/bin/env python3
"""Dependency edges of detached nodes take part in the cycle check: an acyclic plan fails forever.

Run as: cd /tmp/hunt_N && PYTHONPATH=/tmp/hunt_N /venv/bin/python _found/4/demo.py

History (real `stepup build -j 1` runs in a temporary directory):

1. build: a.txt is static, `cp a.txt b.txt` builds b.txt.
2. The direction is flipped in plan.py: `cp b.txt a.txt` builds a.txt and b.txt is the static source
   (declared after the step). b.txt is on disk from build 1, a.txt is simply overwritten. build, build, build.

Expected: as in a from-scratch build of the same sources, ./plan.py succeeds and `cp b.txt a.txt` runs.
Observed: ./plan.py fails with "CyclicError: New relation introduces a cyclic dependency", every time.
The cycle runs through `step:cp a.txt b.txt`, which the rerun of ./plan.py has just detached.
"""

import os
import shutil
import subprocess
import sys
import tempfile

PLAN_1 = """\
#!/usr/bin/env python3
from stepup.core.api import static, run
static("a.txt")
run("cp a.txt b.txt", inp=["a.txt"], out=["b.txt"])
"""

PLAN_2 = """\
#!/usr/bin/env python3
from stepup.core.api import static, run
run("cp b.txt a.txt", inp=["b.txt"], out=["a.txt"])
static("b.txt")
"""


def write(path, content, executable=False):
    with open(path, "w") as fh:
        fh.write(content)
    if executable:
        os.chmod(path, 0o755)


def build(workdir, env):
    proc = subprocess.run(
        ["stepup", "build", "--no-progress", "-j", "1"],
        cwd=workdir,
        env=env,
        stdin=subprocess.DEVNULL,
        stdout=subprocess.PIPE,
        stderr=subprocess.STDOUT,
        text=True,
        check=False,
    )
    return proc.returncode, proc.stdout


def summary(out):
    keep = ("START", "SUCCESS", "FAIL │", "SKIP", "Error:", "Ran ", "WARNING")
    return "\n".join(line[:170] for line in out.splitlines() if any(k in line for k in keep))


def main():
    tmp = tempfile.mkdtemp(prefix="hunt_N_demo4_")
    try:
        env = {k: v for k, v in os.environ.items() if not k.startswith("STEPUP_")}
        env["PATH"] = "/venv/bin:" + env.get("PATH", "")
        env["PYTHONPATH"] = "/tmp/hunt_N"
        env["HOME"] = tmp

        refdir = os.path.join(tmp, "ref")
        os.mkdir(refdir)
        write(os.path.join(refdir, "plan.py"), PLAN_2, True)
        write(os.path.join(refdir, "b.txt"), "content\n")
        rc_ref, out_ref = build(refdir, env)
        print("=== from-scratch build of the final sources: rc", rc_ref)
        print(summary(out_ref))

        workdir = os.path.join(tmp, "w")
        os.mkdir(workdir)
        write(os.path.join(workdir, "plan.py"), PLAN_1, True)
        write(os.path.join(workdir, "a.txt"), "content\n")
        rc1, out1 = build(workdir, env)
        print("=== build 1: rc", rc1)
        print(summary(out1))
        if rc1 != 0 or rc_ref != 0:
            print("UNEXPECTED: the reference builds must succeed")
            return 2

        write(os.path.join(workdir, "plan.py"), PLAN_2, True)
        rcs = []
        cyclic = 0
        for i in (2, 3, 4):
            rc, out = build(workdir, env)
            rcs.append(rc)
            cyclic += "CyclicError" in out
            print(f"=== build {i} (direction flipped): rc", rc)
            print(summary(out))
        if all(rc != 0 for rc in rcs) and cyclic == 3:
            print(
                f"DEFECT: return codes {rcs}, three times CyclicError for a plan without any cycle "
                "(the from-scratch build of the same sources exits 0)."
            )
            return 1
        print("OK: the incremental build accepted the flipped plan")
        return 0
    finally:
        shutil.rmtree(tmp, ignore_errors=True)


if __name__ == "__main__":
    sys.exit(main())
