#!/usr/bin/env python3
"""A comment-only edit of a nested plan executes a step outside its cone (with -j 2 or more).

Run as: cd /tmp/hunt_N && PYTHONPATH=/tmp/hunt_N /venv/bin/python _found/5/demo.py

Project (real `stepup build -j 2` runs in a temporary directory):

    plan.py    : static("p1.py", "consume.py"); plan("./p1.py"); run("./consume.py", out=["final.txt"])
    p1.py      : static("src.txt"); run("cp src.txt mid.txt", inp=["src.txt"], out=["mid.txt"])
    consume.py : amend(inp=["mid.txt"]); copies mid.txt to final.txt; appends a line to count.log

History: build (exit 0), build again (runs nothing), append a comment to p1.py, build.

Expected: only ./p1.py is executed. `cp src.txt mid.txt` is recreated by it and skipped,
and ./consume.py, which plan.py (not edited, not executed) declares and whose inputs
(consume.py, mid.txt) did not change, is not executed.
Observed: `DROPAMEND ./consume.py`, `START ./consume.py` (once or twice), count.log grows.
"""

import os
import re
import shutil
import subprocess
import sys
import tempfile

PLAN = """\
#!/usr/bin/env python3
from stepup.core.api import static, plan, run
static("p1.py", "consume.py")
plan("./p1.py")
run("./consume.py", out=["final.txt"])
"""

# The short sleep stands for any work a plan does between two API calls.
# Under light load the defect also shows without it (5 out of 5 attempts when this was written).
P1 = """\
#!/usr/bin/env python3
import time
from stepup.core.api import static, run
static("src.txt")
time.sleep(0.5)
run("cp src.txt mid.txt", inp=["src.txt"], out=["mid.txt"])
"""

CONSUME = """\
#!/usr/bin/env python3
from stepup.core.api import amend
amend(inp=["mid.txt"])
with open("mid.txt") as fi, open("final.txt", "w") as fo:
    fo.write(fi.read())
with open("count.log", "a") as fh:
    fh.write("consume.py ran to completion\\n")
"""


def write(path, content, executable=False):
    with open(path, "w") as fh:
        fh.write(content)
    if executable:
        os.chmod(path, 0o755)


def build(workdir, env):
    proc = subprocess.run(
        ["stepup", "build", "--no-progress", "-j", "2"],
        cwd=workdir,
        env=env,
        stdin=subprocess.DEVNULL,
        stdout=subprocess.PIPE,
        stderr=subprocess.STDOUT,
        text=True,
        check=False,
    )
    return proc.returncode, proc.stdout


def count_runs(workdir):
    path = os.path.join(workdir, "count.log")
    if not os.path.exists(path):
        return 0
    with open(path) as fh:
        return len(fh.readlines())


def main():
    tmp = tempfile.mkdtemp(prefix="hunt_N_demo5_")
    try:
        env = {k: v for k, v in os.environ.items() if not k.startswith("STEPUP_")}
        env["PATH"] = "/venv/bin:" + env.get("PATH", "")
        env["PYTHONPATH"] = "/tmp/hunt_N"
        env["HOME"] = tmp
        workdir = os.path.join(tmp, "w")
        os.mkdir(workdir)
        write(os.path.join(workdir, "plan.py"), PLAN, True)
        write(os.path.join(workdir, "p1.py"), P1, True)
        write(os.path.join(workdir, "consume.py"), CONSUME, True)
        write(os.path.join(workdir, "src.txt"), "hello\n")

        rc, out = build(workdir, env)
        print("=== build 1: rc", rc, "| count.log lines:", count_runs(workdir))
        if rc != 0:
            print(out)
            print("UNEXPECTED: the first build must succeed")
            return 2
        rc, out = build(workdir, env)
        started = re.findall(r"START │ (.*)", out)
        print("=== build 2 (nothing changed): rc", rc, "| started:", started)
        if rc != 0 or started:
            print(out)
            print("UNEXPECTED: the no-op rebuild is not clean, cannot continue")
            return 2

        for attempt in (1, 2, 3):
            before = count_runs(workdir)
            with open(os.path.join(workdir, "p1.py"), "a") as fh:
                fh.write(f"# a comment, attempt {attempt}\n")
            rc, out = build(workdir, env)
            started = re.findall(r"START │ (.*)", out)
            after = count_runs(workdir)
            print(f"=== build {2 + attempt} (comment appended to p1.py): rc {rc} | started: {started}")
            if "./consume.py" in started:
                print(out)
                print(
                    "DEFECT: only p1.py was edited (a comment), yet ./consume.py was executed: "
                    f"{started.count('./consume.py')} START line(s), "
                    f"count.log grew from {before} to {after} line(s). "
                    "It is declared by plan.py (not executed), its declared input consume.py and its "
                    "amended input mid.txt are unchanged, and the producer of mid.txt was skipped."
                )
                return 1
        print("OK: ./consume.py was never executed after a comment-only edit of p1.py")
        return 0
    finally:
        shutil.rmtree(tmp, ignore_errors=True)


if __name__ == "__main__":
    sys.exit(main())
