#!/usr/bin/env python3
"""An edit of a static file is missed when its node is detached during the startup rescan.

Run as: cd /tmp/hunt_N && PYTHONPATH=/tmp/hunt_N /venv/bin/python _found/1/demo.py

History (real `stepup build` runs in a temporary directory, nothing is mocked):

1. build: plan.py -> plan("./p1.py"); p1.py declares static f.txt and `cp f.txt out.txt`.
2. plan.py is broken (exits 1 before it calls plan()), build fails with FAILED | DRAINED.
   The failed build skips the cleanup, so the subtree of p1.py stays in graph.db, detached.
3. plan.py is repaired (original content) and f.txt is edited. build.

Expected: build 3 reruns `cp f.txt out.txt`, because f.txt is its input and was edited.
Observed: build 3 exits 0, runs only ./plan.py, skips ./p1.py and leaves out.txt stale.
"""

import os
import shutil
import subprocess
import sys
import tempfile

PLAN_OK = """\
#!/usr/bin/env python3
from stepup.core.api import static, plan
static("p1.py")
plan("./p1.py")
"""

PLAN_BROKEN = """\
#!/usr/bin/env python3
import sys
sys.exit(1)
"""

P1 = """\
#!/usr/bin/env python3
from stepup.core.api import static, run
static("f.txt")
run("cp f.txt out.txt", inp=["f.txt"], out=["out.txt"])
"""


def write(path, content, executable=False):
    with open(path, "w") as fh:
        fh.write(content)
    if executable:
        os.chmod(path, 0o755)


def build(workdir, env):
    proc = subprocess.run(
        ["stepup", "build", "--no-progress", "-j", "1"],
        cwd=workdir,
        env=env,
        stdin=subprocess.DEVNULL,
        stdout=subprocess.PIPE,
        stderr=subprocess.STDOUT,
        text=True,
        check=False,
    )
    return proc.returncode, proc.stdout


P1_B = """\
#!/usr/bin/env python3
from stepup.core.api import static, run
static("f.txt")
run("grep -v bad f.txt > out.txt", shell=True, inp=["f.txt"], out=["out.txt"])
"""


def scenario_b(tmp, env):
    """Variant B: the same stale hash makes a repaired input fail with a bogus error.

    1. build: f.txt contains "bad", so `grep -v bad f.txt > out.txt` fails (a genuine failure).
    2. plan.py is broken, build fails, the subtree of p1.py is left detached.
    3. plan.py is repaired and f.txt is repaired ("good"). build.

    Expected: the grep step runs and succeeds, exit 0 (as in a from-scratch build).
    Observed: FAIL "not executed", "Input changed unexpectedly: f.txt", scheduler drains,
    exit FAILED | DRAINED, although nothing changed while StepUp was running.
    """
    workdir = os.path.join(tmp, "wb")
    os.mkdir(workdir)
    write(os.path.join(workdir, "plan.py"), PLAN_OK, True)
    write(os.path.join(workdir, "p1.py"), P1_B, True)
    write(os.path.join(workdir, "f.txt"), "bad\n")
    rc1, _ = build(workdir, env)
    write(os.path.join(workdir, "plan.py"), PLAN_BROKEN, True)
    rc2, _ = build(workdir, env)
    write(os.path.join(workdir, "plan.py"), PLAN_OK, True)
    write(os.path.join(workdir, "f.txt"), "good\n")
    rc3, out3 = build(workdir, env)
    print("=== variant B: rc of builds 1, 2, 3:", rc1, rc2, rc3)
    print(out3)
    if rc3 != 0 and "Input changed unexpectedly: f.txt" in out3:
        print(
            "DEFECT (variant B): build 3 reports FAIL (not executed) with "
            "'Input changed unexpectedly: f.txt' and exits", rc3,
            "although f.txt was edited between two builds, not during one."
        )
        rc4, _ = build(workdir, env)
        print("=== variant B: build 4 (nothing changed): rc", rc4)
        return 1
    return 0


def main():
    tmp = tempfile.mkdtemp(prefix="hunt_N_demo1_")
    try:
        env = {k: v for k, v in os.environ.items() if not k.startswith("STEPUP_")}
        env["PATH"] = "/venv/bin:" + env.get("PATH", "")
        env["PYTHONPATH"] = "/tmp/hunt_N"
        env["HOME"] = tmp
        workdir = os.path.join(tmp, "w")
        os.mkdir(workdir)
        write(os.path.join(workdir, "plan.py"), PLAN_OK, True)
        write(os.path.join(workdir, "p1.py"), P1, True)
        write(os.path.join(workdir, "f.txt"), "version 1\n")

        rc1, out1 = build(workdir, env)
        print("=== build 1: rc", rc1)
        if rc1 != 0:
            print(out1)
            print("UNEXPECTED: the first build must succeed")
            return 2

        write(os.path.join(workdir, "plan.py"), PLAN_BROKEN, True)
        rc2, out2 = build(workdir, env)
        print("=== build 2 (plan.py broken): rc", rc2)
        if rc2 == 0:
            print(out2)
            print("UNEXPECTED: the second build must fail")
            return 2

        # Only source files are edited: plan.py is repaired and f.txt gets new content.
        write(os.path.join(workdir, "plan.py"), PLAN_OK, True)
        write(os.path.join(workdir, "f.txt"), "version 2\n")
        rc3, out3 = build(workdir, env)
        print("=== build 3 (plan.py repaired, f.txt edited): rc", rc3)
        print(out3)
        with open(os.path.join(workdir, "f.txt")) as fh:
            src = fh.read()
        with open(os.path.join(workdir, "out.txt")) as fh:
            dst = fh.read()
        print(f"f.txt   = {src!r}")
        print(f"out.txt = {dst!r}")
        reran = "START │ cp f.txt out.txt" in out3
        if rc3 == 0 and src != dst and not reran:
            print(
                "DEFECT: build 3 exits 0 without running `cp f.txt out.txt`, "
                "although its input f.txt was edited; out.txt is stale."
            )
            rc4, out4 = build(workdir, env)
            print("=== build 4 (nothing changed): rc", rc4)
            if "START │ cp f.txt out.txt" in out4:
                print(
                    "A rebuild with nothing changed now runs the step: "
                    "the edit is only noticed once f.txt is attached again."
                )
            scenario_b(tmp, env)
            return 1
        print("OK: the edit of f.txt was acted upon")
        return scenario_b(tmp, env)
    finally:
        shutil.rmtree(tmp, ignore_errors=True)


if __name__ == "__main__":
    sys.exit(main())
