#!/usr/bin/env python3
"""A director killed between the cleanup transaction and the file removal leaves stale outputs forever.

Run as: cd /tmp/hunt_N && PYTHONPATH=/tmp/hunt_N /venv/bin/python _found/2/demo.py

History (real `stepup build` runs in temporary directories):

1. build: plan.py defines `echo a > a.txt` (out a.txt) and `echo b > b.txt` (out b.txt).
2. plan.py is edited: the step that builds a.txt is removed. build.
   - reference: uninterrupted. The cleanup removes a.txt.
   - crash: the director is SIGKILLed right after the transaction of `Workflow.delete_detached()`
     committed, i.e. at the moment `remove_deletable_files` is entered.
     Then `stepup build` is started again, twice.

Expected: after the restart the project looks like the reference: a.txt is gone.
Observed: a.txt survives the restart and every later build, and graph.db does not know it anymore.

The crash point is injected without touching stepup/core:
a `sitecustomize.py` on PYTHONPATH replaces the name `remove_deletable_files` in the director process
by a coroutine that sends SIGKILL to its own process (the first thing that runs after the commit).
"""

import os
import shutil
import sqlite3
import subprocess
import sys
import tempfile

PLAN_1 = """\
#!/usr/bin/env python3
from stepup.core.api import run
run("echo a > a.txt", shell=True, out=["a.txt"])
run("echo b > b.txt", shell=True, out=["b.txt"])
"""

PLAN_2 = """\
#!/usr/bin/env python3
from stepup.core.api import run
run("echo b > b.txt", shell=True, out=["b.txt"])
"""

HOOK = """\
import os, signal, sys
if os.environ.get("DEMO_KILL_IN_CLEANUP") == "1":
    import stepup.core.builder as _builder

    async def _killed(workflow, reporter):
        if len(sys.argv) > 0 and sys.argv[0].endswith("director.py"):
            os.kill(os.getpid(), signal.SIGKILL)

    _builder.remove_deletable_files = _killed
"""


def write(path, content, executable=False):
    with open(path, "w") as fh:
        fh.write(content)
    if executable:
        os.chmod(path, 0o755)


def build(workdir, env, kill=False):
    env = dict(env)
    if kill:
        env["DEMO_KILL_IN_CLEANUP"] = "1"
    proc = subprocess.run(
        ["stepup", "build", "--no-progress", "-j", "1"],
        cwd=workdir,
        env=env,
        stdin=subprocess.DEVNULL,
        stdout=subprocess.PIPE,
        stderr=subprocess.STDOUT,
        text=True,
        check=False,
    )
    return proc.returncode, proc.stdout


def listing(workdir):
    return sorted(name for name in os.listdir(workdir) if name != ".stepup")


def known_paths(workdir):
    con = sqlite3.connect(os.path.join(workdir, ".stepup", "graph.db"))
    try:
        return sorted(row[0] for row in con.execute("SELECT label FROM node WHERE kind = 'file'"))
    finally:
        con.close()


def main():
    tmp = tempfile.mkdtemp(prefix="hunt_N_demo2_")
    try:
        hookdir = os.path.join(tmp, "hook")
        os.mkdir(hookdir)
        write(os.path.join(hookdir, "sitecustomize.py"), HOOK)
        env = {k: v for k, v in os.environ.items() if not k.startswith("STEPUP_")}
        env["PATH"] = "/venv/bin:" + env.get("PATH", "")
        env["PYTHONPATH"] = hookdir + ":/tmp/hunt_N"
        env["HOME"] = tmp

        results = {}
        for name in ("reference", "crash"):
            workdir = os.path.join(tmp, name)
            os.mkdir(workdir)
            write(os.path.join(workdir, "plan.py"), PLAN_1, True)
            rc, out = build(workdir, env)
            if rc != 0 or listing(workdir) != ["a.txt", "b.txt", "plan.py"]:
                print(out)
                print("UNEXPECTED: first build did not succeed")
                return 2
            write(os.path.join(workdir, "plan.py"), PLAN_2, True)
            if name == "reference":
                rc, out = build(workdir, env)
                print(f"=== {name}: build 2 uninterrupted, rc {rc}")
            else:
                rc, out = build(workdir, env, kill=True)
                print(f"=== {name}: build 2 killed when remove_deletable_files is entered, rc {rc}")
                print(out)
                print(f"files after the kill: {listing(workdir)}")
                for i in (1, 2):
                    rc, out = build(workdir, env)
                    print(f"=== {name}: restart {i}, rc {rc}")
                    print(out)
            results[name] = (rc, listing(workdir), known_paths(workdir))
            print(f"{name}: rc={rc} files={results[name][1]} file nodes in graph.db={results[name][2]}")

        ref, crash = results["reference"], results["crash"]
        if crash[1] != ref[1]:
            extra = sorted(set(crash[1]) - set(ref[1]))
            print(
                f"DEFECT: after kill + restart the files {extra} are still on disk, "
                f"the uninterrupted build removed them. rc of the restart is {crash[0]}, "
                f"graph.db has no node for them ({crash[2]}), so no later build will ever remove them."
            )
            return 1
        print("OK: the restarted build left the same files as the uninterrupted one")
        return 0
    finally:
        shutil.rmtree(tmp, ignore_errors=True)


if __name__ == "__main__":
    sys.exit(main())
