#!/usr/bin/env python3
"""C14: a new glob match that appears while the globbing step is detached is dropped by the watcher.

Run as: cd /tmp/hunt_O && PYTHONPATH=/tmp/hunt_O /venv/bin/python _found/4/demo.py

A real `stepup build -w` is driven from the outside with `stepup wait/rebuild/join`,
like tests/examples/watch_*/main.sh. Nothing in stepup/core is modified.
Exit code 1 = defect reproduced, 0 = not reproduced.
"""

import os
import subprocess
import sys
import tempfile
import time
from pathlib import Path

ROOT = "/tmp/hunt_O"
ENV = dict(os.environ)
ENV["PATH"] = "/venv/bin:" + ENV.get("PATH", "")
ENV["PYTHONPATH"] = ROOT
ENV.pop("STEPUP_ROOT", None)
ENV.pop("STEPUP_DIRECTOR_SOCKET", None)

PLAN_GOOD = """\
#!/usr/bin/env python3
from stepup.core.api import plan, static

static("sentinel.txt", "sub/plan.py")
plan("./plan.py", workdir="sub/")
"""

# The same plan while somebody is editing it: it fails before it gets to the sub-plan.
PLAN_BAD = """\
#!/usr/bin/env python3
from stepup.core.api import plan, static

static("sentinel.txt", "sub/plan.py")
raise RuntimeError("work in progress")
plan("./plan.py", workdir="sub/")
"""

SUB_PLAN = """\
#!/usr/bin/env python3
from stepup.core.api import glob, static, step

static("*.dat")
for p in glob("*.dat"):
    step(f"cp {p} ../out/{p}.out", inp=[p], out=[f"../out/{p}.out"])
"""


def stepup(cwd, *args, timeout=60):
    return subprocess.run(
        ["stepup", *args], cwd=cwd, env=ENV, timeout=timeout, capture_output=True, text=True
    )


def flush_watcher(cwd, value):
    """Return when the watcher has handled every inotify event queued before this call."""
    time.sleep(0.3)
    (cwd / "sentinel.txt").write_text(value)
    stepup(cwd, "wait", "-u", "sentinel.txt")


def outputs(cwd):
    return sorted(p.name for p in (cwd / "out").glob("*"))


def main():
    with tempfile.TemporaryDirectory(prefix="hunt_O_demo4_") as tmp:
        cwd = Path(tmp)
        (cwd / "sub").mkdir()
        (cwd / "plan.py").write_text(PLAN_GOOD)
        (cwd / "plan.py").chmod(0o755)
        (cwd / "sub" / "plan.py").write_text(SUB_PLAN)
        (cwd / "sub" / "plan.py").chmod(0o755)
        (cwd / "sub" / "a.dat").write_text("a\n")
        (cwd / "sentinel.txt").write_text("0\n")

        with open(cwd / "watch_stdout.txt", "w") as fh:
            director = subprocess.Popen(
                ["stepup", "build", "-j", "1", "-w"], cwd=cwd, env=ENV, stdout=fh, stderr=fh
            )
        try:
            time.sleep(0.5)
            stepup(cwd, "wait")
            print("first build             :", outputs(cwd))

            # 1) The top-level plan is broken for a while. Its rerun fails,
            #    which leaves the sub-plan step (and its glob pattern) detached.
            (cwd / "plan.py").write_text(PLAN_BAD)
            stepup(cwd, "wait", "-u", "plan.py")
            stepup(cwd, "rebuild")
            stepup(cwd, "wait")

            # 2) Meanwhile a new data file arrives, and then the plan is repaired.
            (cwd / "sub" / "b.dat").write_text("b\n")
            time.sleep(0.3)
            (cwd / "plan.py").write_text(PLAN_GOOD)
            flush_watcher(cwd, "1\n")

            # 3) Rebuild.
            stepup(cwd, "rebuild")
            stepup(cwd, "wait")
            stepup(cwd, "graph", "graph_watch")
            watch_outputs = outputs(cwd)
            stepup(cwd, "join")
            rc_watch = director.wait(timeout=60)
        finally:
            if director.poll() is None:
                director.kill()
        print("after watch-mode rebuild:", watch_outputs, "returncode", rc_watch)

        # 4) Restart on the very same file-system state.
        res = subprocess.run(
            ["stepup", "build", "-j", "1"], cwd=cwd, env=ENV, capture_output=True, text=True
        )
        restart_outputs = outputs(cwd)
        print("after restart           :", restart_outputs, "returncode", res.returncode)

        if watch_outputs != restart_outputs or rc_watch != res.returncode:
            print()
            print("DEFECT (C14): the watcher dropped the creation of sub/b.dat, because the only")
            print("pattern that matches it belonged to a detached step at that moment.")
            print("--- output of the watching director ---")
            print((cwd / "watch_stdout.txt").read_text())
            print("--- output of the restart ---")
            print(res.stdout)
            return 1
        print("not reproduced")
        return 0


if __name__ == "__main__":
    sys.exit(main())
