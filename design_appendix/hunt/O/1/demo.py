#!/usr/bin/env python3
"""C14: a glob match that appears in a NEW subdirectory is invisible to a watch-mode rebuild.

Run as: cd /tmp/hunt_O && PYTHONPATH=/tmp/hunt_O /venv/bin/python _found/1/demo.py

A real `stepup build -w` is driven from the outside with `stepup wait/rebuild/join`,
exactly like tests/examples/watch_*/main.sh do. Nothing in stepup/core is modified or mocked.
Exit code 1 = defect reproduced, 0 = not reproduced.
"""

import os
import subprocess
import sys
import tempfile
import time
from pathlib import Path

ROOT = "/tmp/hunt_O"
ENV = dict(os.environ)
ENV["PATH"] = "/venv/bin:" + ENV.get("PATH", "")
ENV["PYTHONPATH"] = ROOT
ENV.pop("STEPUP_ROOT", None)
ENV.pop("STEPUP_DIRECTOR_SOCKET", None)

PLAN = """\
#!/usr/bin/env python3
from stepup.core.api import glob, static, step

static("data/", "sentinel.txt")
for path in glob("data/*/inp.txt"):
    name = path.parent.name
    step(f"cp {path} out_{name}.txt", inp=[path], out=[f"out_{name}.txt"])
"""


def stepup(cwd, *args, timeout=60):
    return subprocess.run(
        ["stepup", *args], cwd=cwd, env=ENV, timeout=timeout, capture_output=True, text=True
    )


def outputs(cwd):
    return sorted(p.name for p in Path(cwd).glob("out_*.txt"))


def main():
    with tempfile.TemporaryDirectory(prefix="hunt_O_demo1_") as tmp:
        cwd = Path(tmp)
        (cwd / "plan.py").write_text(PLAN)
        (cwd / "plan.py").chmod(0o755)
        (cwd / "sentinel.txt").write_text("0\n")
        (cwd / "data" / "a").mkdir(parents=True)
        (cwd / "data" / "a" / "inp.txt").write_text("a\n")

        # 1) Start StepUp in watch mode and wait for the first build.
        with open(cwd / "watch_stdout.txt", "w") as fh:
            director = subprocess.Popen(
                ["stepup", "build", "-j", "1", "-w"], cwd=cwd, env=ENV, stdout=fh, stderr=fh
            )
        try:
            time.sleep(0.5)
            stepup(cwd, "wait")
            print("after first build      :", outputs(cwd))

            # 2) While StepUp is watching: create a new subdirectory with a new match.
            (cwd / "data" / "b").mkdir()
            time.sleep(0.3)
            (cwd / "data" / "b" / "inp.txt").write_text("b\n")
            # The sentinel is a static file in the (watched) root directory.
            # inotify events of one instance are ordered, so once its update has been seen,
            # everything the watcher could see of the edits above has been seen too.
            time.sleep(0.3)
            (cwd / "sentinel.txt").write_text("1\n")
            stepup(cwd, "wait", "-u", "sentinel.txt")

            # 3) Trigger the rebuild and wait for it.
            stepup(cwd, "rebuild")
            stepup(cwd, "wait")
            stepup(cwd, "graph", "graph_watch")
            watch_outputs = outputs(cwd)
            stepup(cwd, "join")
            rc_watch = director.wait(timeout=60)
        finally:
            if director.poll() is None:
                director.kill()
        print("after watch-mode rebuild:", watch_outputs, "returncode", rc_watch)

        # 4) Stop and start again on the very same file-system state.
        res = subprocess.run(
            ["stepup", "build", "-j", "1"], cwd=cwd, env=ENV, capture_output=True, text=True
        )
        restart_outputs = outputs(cwd)
        print("after restart           :", restart_outputs, "returncode", res.returncode)
        restart_ran = [line.strip() for line in res.stdout.splitlines() if " START " in line]
        print("steps started by the restart:", restart_ran)

        if watch_outputs != restart_outputs or restart_ran:
            print()
            print("DEFECT (C14): the watch-mode rebuild did not see data/b/inp.txt.")
            print("A restart on the same tree re-globs, reruns ./plan.py and builds out_b.txt.")
            print("--- output of the watching director ---")
            print((cwd / "watch_stdout.txt").read_text())
            return 1
        print("not reproduced")
        return 0


if __name__ == "__main__":
    sys.exit(main())
