#!/usr/bin/env python3
"""C03: a step succeeds on an AMENDED input that changed while its command was running.

Run as: cd /tmp/hunt_O && PYTHONPATH=/tmp/hunt_O /venv/bin/python _found/2/demo.py

A real `stepup build -j 3` runs in a temporary directory; nothing in stepup/core is modified.
The interleaving is forced with marker files that the step commands poll for
(m1, m2, m3 are not part of the workflow).
Exit code 1 = defect reproduced, 0 = not reproduced.
"""

import os
import subprocess
import sys
import tempfile
import time
from pathlib import Path

ROOT = "/tmp/hunt_O"
ENV = dict(os.environ)
ENV["PATH"] = "/venv/bin:" + ENV.get("PATH", "")
ENV["PYTHONPATH"] = ROOT
ENV.pop("STEPUP_ROOT", None)
ENV.pop("STEPUP_DIRECTOR_SOCKET", None)

PLAN = """\
#!/usr/bin/env python3
from stepup.core.api import static, step

static("s.txt", "a.py")
# A: amends s.txt as an input while running, reads it, and keeps running for a while.
step("./a.py", inp=["a.py"], out=["a_out.txt"])
# C: only exists to delay B until the test has modified s.txt.
step("while [ ! -e m2 ]; do sleep 0.05; done; echo c > c_out.txt", shell=True, out=["c_out.txt"])
# B: declares s.txt as an input. It is dispatched after the modification of s.txt.
step("cat s.txt c_out.txt > b_out.txt", shell=True, inp=["s.txt", "c_out.txt"], out=["b_out.txt"])
"""

A_PY = """\
#!/usr/bin/env python3
import os
import time

from stepup.core.api import amend

amend(inp=["s.txt"])
data = open("s.txt").read()
open("m1", "w").close()
while not os.path.exists("m3"):
    time.sleep(0.05)
with open("a_out.txt", "w") as fh:
    fh.write("derived from: " + data)
"""


def wait_for(predicate, what, timeout=60):
    deadline = time.time() + timeout
    while not predicate():
        if time.time() > deadline:
            raise TimeoutError(what)
        time.sleep(0.05)


def main():
    with tempfile.TemporaryDirectory(prefix="hunt_O_demo2_") as tmp:
        cwd = Path(tmp)
        (cwd / "plan.py").write_text(PLAN)
        (cwd / "plan.py").chmod(0o755)
        (cwd / "a.py").write_text(A_PY)
        (cwd / "a.py").chmod(0o755)
        (cwd / "s.txt").write_text("old\n")

        log = cwd / "build1.txt"
        with open(log, "w") as fh:
            build = subprocess.Popen(
                ["stepup", "build", "-j", "3"], cwd=cwd, env=ENV, stdout=fh, stderr=fh
            )
        try:
            # A has amended and read s.txt ("old") and is still running.
            wait_for(lambda: (cwd / "m1").exists(), "step A did not reach m1")
            # External modification of A's amended input while A's command runs.
            (cwd / "s.txt").write_text("new\n")
            # Let C finish, so B (declared input s.txt) gets dispatched. B's pre-run check
            # notices the change, fails, stores the NEW hash of s.txt and drains the scheduler.
            (cwd / "m2").write_text("")
            wait_for(lambda: "draining" in log.read_text(), "step B did not fail")
            # Only now A is allowed to finish.
            (cwd / "m3").write_text("")
            rc1 = build.wait(timeout=60)
        finally:
            if build.poll() is None:
                build.kill()
        out1 = log.read_text()
        print(out1)
        a_succeeded = "SUCCESS │ ./a.py" in out1
        print(f"build 1: returncode={rc1}  './a.py' reported SUCCESS: {a_succeeded}")

        # Second build on the final file-system state: nothing changes anymore.
        (cwd / "m1").unlink()
        res = subprocess.run(
            ["stepup", "build", "-j", "3"], cwd=cwd, env=ENV, capture_output=True, text=True
        )
        print(res.stdout)
        s_txt = (cwd / "s.txt").read_text().strip()
        a_out = (cwd / "a_out.txt").read_text().strip()
        a_reran = "START │ ./a.py" in res.stdout
        print(f"build 2: returncode={res.returncode}  './a.py' ran again: {a_reran}")
        print(f"s.txt     = {s_txt!r}")
        print(f"a_out.txt = {a_out!r}")

        if a_succeeded and res.returncode == 0 and not a_reran and a_out != f"derived from: {s_txt}":
            print()
            print("DEFECT (C03): ./a.py was recorded as SUCCEEDED although its amended input s.txt")
            print("changed while its command ran. The build ends 'successfully' with a_out.txt")
            print("derived from content that s.txt no longer has, and no later build repairs it.")
            return 1
        print("not reproduced")
        return 0


if __name__ == "__main__":
    sys.exit(main())
