#!/usr/bin/env python3
"""C14: after `mv data other`, a re-created `data/sub/inp.txt` is invisible to watch mode.

Run as: cd /tmp/hunt_O && PYTHONPATH=/tmp/hunt_O /venv/bin/python _found/3/demo.py

A real `stepup build -w` is driven from the outside with `stepup wait/rebuild/join`,
exactly like tests/examples/watch_move_dir_simple/main.sh. Nothing in stepup/core is modified.
Exit code 1 = defect reproduced, 0 = not reproduced.
"""

import os
import subprocess
import sys
import tempfile
import time
from pathlib import Path

ROOT = "/tmp/hunt_O"
ENV = dict(os.environ)
ENV["PATH"] = "/venv/bin:" + ENV.get("PATH", "")
ENV["PYTHONPATH"] = ROOT
ENV.pop("STEPUP_ROOT", None)
ENV.pop("STEPUP_DIRECTOR_SOCKET", None)

# The plan of tests/examples/watch_move_dir_simple, plus a sentinel in the root directory.
PLAN = """\
#!/usr/bin/env python3
from stepup.core.api import static, step

static("data/sub/inp.txt", "s1.txt", "s2.txt", "s3.txt")
step("cat data/sub/inp.txt > out.txt", shell=True, inp="data/sub/inp.txt", out="out.txt")
"""


def stepup(cwd, *args, timeout=60):
    return subprocess.run(
        ["stepup", *args], cwd=cwd, env=ENV, timeout=timeout, capture_output=True, text=True
    )


def flush_watcher(cwd, name):
    """Return when the watcher has handled every inotify event queued before this call.

    The sentinel is a static file in the root directory, which is always watched,
    and the events of one inotify instance are delivered in order.
    A sentinel can be used once per watch phase: `stepup wait -u` returns at once for a path
    that was already reported in the current phase.
    """
    time.sleep(0.3)
    (cwd / name).write_text("changed\n")
    stepup(cwd, "wait", "-u", name)


def main():
    with tempfile.TemporaryDirectory(prefix="hunt_O_demo3_") as tmp:
        cwd = Path(tmp)
        (cwd / "plan.py").write_text(PLAN)
        (cwd / "plan.py").chmod(0o755)
        for name in "s1.txt", "s2.txt", "s3.txt":
            (cwd / name).write_text("0\n")
        (cwd / "data" / "sub").mkdir(parents=True)
        (cwd / "data" / "sub" / "inp.txt").write_text("one\n")

        with open(cwd / "watch_stdout.txt", "w") as fh:
            director = subprocess.Popen(
                ["stepup", "build", "-j", "1", "-w"], cwd=cwd, env=ENV, stdout=fh, stderr=fh
            )
        try:
            time.sleep(0.5)
            stepup(cwd, "wait")
            print("first build, out.txt =", repr((cwd / "out.txt").read_text()))

            # 1) Move the directory away (e.g. to keep a backup) and rebuild:
            #    the input is reported DELETED and the step becomes pending. So far so good.
            (cwd / "data").rename(cwd / "other")
            stepup(cwd, "wait", "-d", "data/sub/inp.txt")
            stepup(cwd, "rebuild")
            stepup(cwd, "wait")

            # 2) Create the directory again, with a new version of the input.
            (cwd / "data").mkdir()
            flush_watcher(cwd, "s1.txt")
            (cwd / "data" / "sub").mkdir()
            flush_watcher(cwd, "s2.txt")
            (cwd / "data" / "sub" / "inp.txt").write_text("two\n")
            flush_watcher(cwd, "s3.txt")

            # 3) Rebuild.
            stepup(cwd, "rebuild")
            stepup(cwd, "wait")
            stepup(cwd, "graph", "graph_watch")
            out_watch = (cwd / "out.txt").read_text()
            stepup(cwd, "join")
            rc_watch = director.wait(timeout=60)
        finally:
            if director.poll() is None:
                director.kill()
        print(f"after watch-mode rebuild: out.txt = {out_watch!r}, returncode {rc_watch}")

        # 4) Restart on the very same file-system state.
        res = subprocess.run(
            ["stepup", "build", "-j", "1"], cwd=cwd, env=ENV, capture_output=True, text=True
        )
        out_restart = (cwd / "out.txt").read_text()
        print(f"after restart           : out.txt = {out_restart!r}, returncode {res.returncode}")

        if (out_watch, rc_watch) != (out_restart, res.returncode):
            print()
            print("DEFECT (C14): the watcher never saw data/sub/inp.txt come back.")
            print("--- output of the watching director ---")
            print((cwd / "watch_stdout.txt").read_text())
            print("--- output of the restart ---")
            print(res.stdout)
            return 1
        print("not reproduced")
        return 0


if __name__ == "__main__":
    sys.exit(main())
