#!/usr/bin/env python3
"""C14: an edit of a static file whose declaring plan is detached at that moment is lost for good
in watch mode (stale output, every rebuild is a no-op), while a restart repairs it.

Run as: cd /tmp/hunt_O && PYTHONPATH=/tmp/hunt_O /venv/bin/python _found/5/demo.py

A real `stepup build -w` is driven from the outside with `stepup wait/rebuild/join`,
like tests/examples/watch_*/main.sh. Nothing in stepup/core is modified.
Exit code 1 = defect reproduced, 0 = not reproduced.
"""

import os
import subprocess
import sys
import tempfile
import time
from pathlib import Path

ROOT = "/tmp/hunt_O"
ENV = dict(os.environ)
ENV["PATH"] = "/venv/bin:" + ENV.get("PATH", "")
ENV["PYTHONPATH"] = ROOT
ENV.pop("STEPUP_ROOT", None)
ENV.pop("STEPUP_DIRECTOR_SOCKET", None)

PLAN_GOOD = """\
#!/usr/bin/env python3
from stepup.core.api import plan, static

static("sentinel.txt", "sub/plan.py")
plan("./plan.py", workdir="sub/")
"""

PLAN_BAD = """\
#!/usr/bin/env python3
from stepup.core.api import plan, static

static("sentinel.txt", "sub/plan.py")
raise RuntimeError("work in progress")
plan("./plan.py", workdir="sub/")
"""

SUB_PLAN = """\
#!/usr/bin/env python3
from stepup.core.api import static, step

static("a.dat")
step("cp a.dat ../out/a.out", inp=["a.dat"], out=["../out/a.out"])
"""


def stepup(cwd, *args, timeout=60):
    return subprocess.run(
        ["stepup", *args], cwd=cwd, env=ENV, timeout=timeout, capture_output=True, text=True
    )


def flush_watcher(cwd, value):
    """Return when the watcher has handled every inotify event queued before this call."""
    time.sleep(0.3)
    (cwd / "sentinel.txt").write_text(value)
    stepup(cwd, "wait", "-u", "sentinel.txt")


def main():
    with tempfile.TemporaryDirectory(prefix="hunt_O_demo5_") as tmp:
        cwd = Path(tmp)
        (cwd / "sub").mkdir()
        (cwd / "plan.py").write_text(PLAN_GOOD)
        (cwd / "plan.py").chmod(0o755)
        (cwd / "sub" / "plan.py").write_text(SUB_PLAN)
        (cwd / "sub" / "plan.py").chmod(0o755)
        (cwd / "sub" / "a.dat").write_text("old\n")
        (cwd / "sentinel.txt").write_text("0\n")

        with open(cwd / "watch_stdout.txt", "w") as fh:
            director = subprocess.Popen(
                ["stepup", "build", "-j", "1", "-w"], cwd=cwd, env=ENV, stdout=fh, stderr=fh
            )
        try:
            time.sleep(0.5)
            stepup(cwd, "wait")

            # 1) The top-level plan is broken for a while: its rerun fails,
            #    which leaves the sub-plan and everything it declared detached.
            (cwd / "plan.py").write_text(PLAN_BAD)
            stepup(cwd, "wait", "-u", "plan.py")
            stepup(cwd, "rebuild")
            stepup(cwd, "wait")

            # 2) Meanwhile the input is edited, and then the plan is repaired.
            (cwd / "sub" / "a.dat").write_text("new\n")
            time.sleep(0.3)
            (cwd / "plan.py").write_text(PLAN_GOOD)
            flush_watcher(cwd, "1\n")
            stepup(cwd, "rebuild")
            stepup(cwd, "wait")
            print("after the repairing rebuild: a.dat =", repr((cwd / "sub/a.dat").read_text()),
                  " a.out =", repr((cwd / "out/a.out").read_text()))

            # 3) Nothing changes anymore. Rebuild once more in watch mode ...
            flush_watcher(cwd, "2\n")
            stepup(cwd, "rebuild")
            stepup(cwd, "wait")
            out_watch = (cwd / "out/a.out").read_text()
            stepup(cwd, "join")
            rc_watch = director.wait(timeout=60)
        finally:
            if director.poll() is None:
                director.kill()
        print(f"after one more watch-mode rebuild: a.out = {out_watch!r}, returncode {rc_watch}")

        # 4) ... versus a restart on the very same file-system state.
        res = subprocess.run(
            ["stepup", "build", "-j", "1"], cwd=cwd, env=ENV, capture_output=True, text=True
        )
        out_restart = (cwd / "out/a.out").read_text()
        print(f"after a restart instead          : a.out = {out_restart!r}, returncode {res.returncode}")

        if out_watch != out_restart:
            print()
            print("DEFECT (C14): the watcher dropped the edit of sub/a.dat (its node was detached),")
            print("the recycled consumer was never checked, and no watch-mode rebuild repairs it.")
            print("--- output of the watching director ---")
            print((cwd / "watch_stdout.txt").read_text())
            print("--- output of the restart ---")
            print(res.stdout)
            return 1
        print("not reproduced")
        return 0


if __name__ == "__main__":
    sys.exit(main())
