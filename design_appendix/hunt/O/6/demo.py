#!/usr/bin/env python3
"""C14: the watcher remembers a file it could not hash for exactly one rebuild.

Run as: cd /tmp/hunt_O && PYTHONPATH=/tmp/hunt_O /venv/bin/python _found/6/demo.py

A real `stepup build -w` is driven from the outside with `stepup wait/rebuild/join`,
like tests/examples/watch_*/main.sh. Nothing in stepup/core is modified.
Exit code 1 = defect reproduced, 0 = not reproduced.
"""

import os
import subprocess
import sys
import tempfile
import time
from pathlib import Path

ROOT = "/tmp/hunt_O"
ENV = dict(os.environ)
ENV["PATH"] = "/venv/bin:" + ENV.get("PATH", "")
ENV["PYTHONPATH"] = ROOT
ENV.pop("STEPUP_ROOT", None)
ENV.pop("STEPUP_DIRECTOR_SOCKET", None)

PLAN = """\
#!/usr/bin/env python3
from stepup.core.api import static, step

static("s.txt", "sentinel.txt")
step("cp s.txt out.txt", inp=["s.txt"], out=["out.txt"])
"""


def stepup(cwd, *args, timeout=60):
    return subprocess.run(
        ["stepup", *args], cwd=cwd, env=ENV, timeout=timeout, capture_output=True, text=True
    )


def flush_watcher(cwd, value):
    """Return when the watcher has handled every inotify event queued before this call."""
    time.sleep(0.3)
    (cwd / "sentinel.txt").write_text(value)
    stepup(cwd, "wait", "-u", "sentinel.txt")


def main():
    with tempfile.TemporaryDirectory(prefix="hunt_O_demo6_") as tmp:
        cwd = Path(tmp)
        (cwd / "plan.py").write_text(PLAN)
        (cwd / "plan.py").chmod(0o755)
        (cwd / "s.txt").write_text("one\n")
        (cwd / "sentinel.txt").write_text("0\n")

        with open(cwd / "watch_stdout.txt", "w") as fh:
            director = subprocess.Popen(
                ["stepup", "build", "-j", "1", "-w"], cwd=cwd, env=ENV, stdout=fh, stderr=fh
            )
        try:
            time.sleep(0.5)
            stepup(cwd, "wait")

            # 1) The static input is replaced by a directory, which cannot be hashed.
            (cwd / "s.txt").unlink()
            (cwd / "s.txt").mkdir()
            flush_watcher(cwd, "1\n")
            stepup(cwd, "rebuild")
            stepup(cwd, "wait")
            first = (cwd / "watch_stdout.txt").read_text()
            print("first rebuild reports draining :", "Scheduler is draining" in first)

            # 2) Nothing else changes. Rebuild once more.
            flush_watcher(cwd, "2\n")
            stepup(cwd, "rebuild")
            stepup(cwd, "wait")
            stepup(cwd, "graph", "graph_watch")
            stepup(cwd, "join")
            rc_watch = director.wait(timeout=60)
        finally:
            if director.poll() is None:
                director.kill()
        graph_watch = (cwd / "graph_watch.txt").read_text()
        print(f"second watch-mode rebuild       : returncode {rc_watch}")

        # 3) Restart on the very same file-system state.
        res = subprocess.run(
            ["stepup", "build", "-j", "1"], cwd=cwd, env=ENV, capture_output=True, text=True
        )
        print(f"restart on the same tree        : returncode {res.returncode}")

        if rc_watch != res.returncode:
            print()
            print("DEFECT (C14): s.txt is a directory, yet the second watch-mode rebuild is 'clean':")
            lines = graph_watch.splitlines()
            for i, line in enumerate(lines):
                if line.startswith(("file:s.txt", "step:cp")):
                    print("   ", line, "|", lines[i + 1].strip())
            print("--- output of the watching director ---")
            print((cwd / "watch_stdout.txt").read_text())
            print("--- output of the restart ---")
            print(res.stdout)
            return 1
        print("not reproduced")
        return 0


if __name__ == "__main__":
    sys.exit(main())
