#!/usr/bin/env python3
"""C02 (and C03): whether a build succeeds depends on --jobs when the declaration of an input
is withdrawn while its consumer is running, and the "successful" result livelocks a later build.

Run as: cd /tmp/hunt_O && PYTHONPATH=/tmp/hunt_O /venv/bin/python _found/7/demo.py

Real `stepup build` runs in temporary directories; nothing in stepup/core is modified.
Step durations are fixed with `sleep`, so both schedules are deterministic.
Exit code 1 = defect reproduced, 0 = not reproduced.
"""

import os
import signal
import subprocess
import sys
import tempfile
import time
from pathlib import Path

ROOT = "/tmp/hunt_O"
ENV = dict(os.environ)
ENV["PATH"] = "/venv/bin:" + ENV.get("PATH", "")
ENV["PYTHONPATH"] = ROOT
ENV.pop("STEPUP_ROOT", None)
ENV.pop("STEPUP_DIRECTOR_SOCKET", None)

PLAN = """\
#!/usr/bin/env python3
from stepup.core.api import plan, static, step

static("cfg_src.txt", "c.py", "trigger.txt", "sub/plan.py")
# G: a slow step that produces the configuration read by the sub-plan.
step("sleep 2; cp cfg_src.txt cfg.txt", shell=True, inp=["cfg_src.txt"], out=["cfg.txt"])
# The sub-plan declares sub/data.txt static, but only when the configuration says so.
plan("./plan.py", workdir="sub/", inp=["../cfg.txt"])
# C: amends sub/data.txt as an input while running, and runs for a while.
step("./c.py", inp=["c.py", "trigger.txt"], out=["c_out.txt"])
"""

SUB_PLAN = """\
#!/usr/bin/env python3
from stepup.core.api import static

if "yes" in open("../cfg.txt").read():
    static("data.txt")
"""

C_PY = """\
#!/usr/bin/env python3
import time

from stepup.core.api import amend

amend(inp=["sub/data.txt"])
data = open("sub/data.txt").read()
time.sleep(4)
open("c_out.txt", "w").write("from: " + data)
"""


def setup(cwd: Path):
    (cwd / "sub").mkdir(parents=True)
    for rel, text in [("plan.py", PLAN), ("sub/plan.py", SUB_PLAN), ("c.py", C_PY)]:
        (cwd / rel).write_text(text)
        (cwd / rel).chmod(0o755)
    (cwd / "cfg_src.txt").write_text("yes\n")
    (cwd / "trigger.txt").write_text("t0\n")
    (cwd / "sub" / "data.txt").write_text("data0\n")


def build(cwd: Path, njob: int):
    res = subprocess.run(
        ["stepup", "build", "-j", str(njob)], cwd=cwd, env=ENV, capture_output=True, text=True
    )
    return res.returncode, res.stdout


def main():
    with tempfile.TemporaryDirectory(prefix="hunt_O_demo7_") as tmp:
        results = {}
        for njob in 1, 2:
            cwd = Path(tmp) / f"j{njob}"
            setup(cwd)
            rc1, _ = build(cwd, njob)
            # The same edit in both copies: the sub-plan will no longer declare sub/data.txt,
            # and C must run again. (C still uses sub/data.txt, so the plan is inconsistent now.)
            (cwd / "cfg_src.txt").write_text("no\n")
            (cwd / "trigger.txt").write_text("t1\n")
            rc2, out2 = build(cwd, njob)
            results[njob] = (rc1, rc2, out2)
            print(f"================ --jobs {njob}: first build rc={rc1}, build after the edit rc={rc2}")
            print(out2)

        rc2_j1, rc2_j2 = results[1][1], results[2][1]
        c_ok_j1 = "SUCCESS │ ./c.py" in results[1][2]
        c_ok_j2 = "SUCCESS │ ./c.py" in results[2][2]
        print(f"--jobs 1: returncode {rc2_j1}, ./c.py succeeded: {c_ok_j1}")
        print(f"--jobs 2: returncode {rc2_j2}, ./c.py succeeded: {c_ok_j2}")

        # Follow-up in the --jobs 2 copy: C's output is removed by hand, so C is checked again.
        hang = False
        cwd = Path(tmp) / "j2"
        if c_ok_j2:
            (cwd / "c_out.txt").unlink()
            log = cwd / "build3.txt"
            with open(log, "w") as fh:
                proc = subprocess.Popen(
                    ["stepup", "build", "-j", "2"], cwd=cwd, env=ENV, stdout=fh, stderr=fh,
                    start_new_session=True,
                )
            try:
                rc3 = proc.wait(timeout=30)
                print(f"third build in the --jobs 2 copy ended with rc={rc3}")
            except subprocess.TimeoutExpired:
                hang = True
                text = log.read_text()
                print("third build in the --jobs 2 copy is still in its build phase after 30 s,")
                print("without having started a single step:")
                print(text)
                os.killpg(proc.pid, signal.SIGINT)
                try:
                    proc.wait(timeout=20)
                except subprocess.TimeoutExpired:
                    os.killpg(proc.pid, signal.SIGKILL)
                    proc.wait()
                time.sleep(0.5)
                print("--- after SIGINT ---")
                print(log.read_text()[len(text):])

        if rc2_j1 != rc2_j2 or hang:
            print()
            print("DEFECT (C02): the same project, the same edit, a different verdict:")
            print(f"  --jobs 1 ends PENDING (rc {rc2_j1}): ./c.py is deferred on the undeclared sub/data.txt")
            print(f"  --jobs 2 ends with rc {rc2_j2}: ./c.py is recorded SUCCEEDED on an input that nothing declares")
            if hang:
                print("and the graph left behind by --jobs 2 sends the next build into an endless")
                print("VALIDATE_DYNAMIC loop (livelock) as soon as ./c.py has to be checked again.")
            return 1
        print("not reproduced")
        return 0


if __name__ == "__main__":
    sys.exit(main())
