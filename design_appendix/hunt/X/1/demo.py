#!/usr/bin/env python3
"""Demo: the verdict of a detached-but-running step is applied to an output path that has
been given to somebody else while the step's hashes were computed.

Run as:  cd /tmp/hunt_X && PYTHONPATH=/tmp/hunt_X /venv/bin/python _found/1/demo.py [--static]

A real `stepup build --no-watch -j 4` is run in a temporary directory. Nothing in stepup/core is
modified or monkeypatched; the history is produced by an ordinary plan.py.

default mode : the new run of plan.py gives big.bin to ANOTHER step (S2) and declares a consumer.
               Observed: the consumer is dispatched and SUCCEEDS seconds before S2 (the only
               producer of big.bin in the graph) has finished, on the content the detached step
               wrote; then S2's own verdict raises ConsistencyError and the director dies (rc=1).
--static     : the new run of plan.py declares big.bin static.
               Observed: ConsistencyError (cause=SUCCEEDED state=UNCONFIRMED), director dies.

Exits 1 when the defect is observed, 0 otherwise.
"""

import os
import shutil
import subprocess
import sys
import tempfile

ROOT = "/tmp/hunt_X"
SIZE = "1G"  # sparse; only serves to make hashing the output take a few seconds

PLAN_HEAD = """\
#!/usr/bin/env python3
import os, time
from stepup.core.api import amend, static, step

# G: a quick producer. plan.py amends its output, so plan.py is deferred once and run again.
step("sleep 0.5; echo hi > gen.txt", shell=True, out="gen.txt")
if os.path.exists("gen.txt"):
    # SECOND run of plan.py. The slow step S of the first run is detached but still running.
    # Wait until S has written its (large) output, i.e. until S's command is over and the
    # executor is hashing big.bin outside any transaction, then give the path another owner.
    while not (os.path.exists("big.bin") and os.path.getsize("big.bin") > 0):
        time.sleep(0.05)
    time.sleep(0.5)
"""

PLAN_TAIL = f"""\
else:
    # FIRST run of plan.py: S is slow and has a large output.
    step("sleep 2; truncate -s {SIZE} big.bin", shell=True, out="big.bin")
amend(inp="gen.txt")
"""

SECOND_OTHER_STEP = """\
    step("sleep 9; echo two > big.bin; date +%s.%N > s2_end.txt", shell=True,
         out="big.bin", vol="s2_end.txt")
    step("date +%s.%N > c_start.txt; head -c 3 big.bin | od -c > copy.txt", shell=True,
         inp="big.bin", out="copy.txt", vol="c_start.txt")
"""

SECOND_STATIC = """\
    static("big.bin")
"""


def main() -> int:
    static_mode = "--static" in sys.argv[1:]
    os.makedirs(os.path.join(ROOT, "_scratch"), exist_ok=True)
    tmp = tempfile.mkdtemp(prefix="found1-", dir=os.path.join(ROOT, "_scratch"))
    try:
        plan = PLAN_HEAD + (SECOND_STATIC if static_mode else SECOND_OTHER_STEP) + PLAN_TAIL
        with open(os.path.join(tmp, "plan.py"), "w") as fh:
            fh.write(plan)
        os.chmod(os.path.join(tmp, "plan.py"), 0o755)
        env = dict(os.environ)
        env["PATH"] = "/venv/bin:" + env.get("PATH", "")
        env["PYTHONPATH"] = ROOT
        for name in list(env):
            if name.startswith("STEPUP_"):
                del env[name]
        proc = subprocess.run(
            ["stepup", "build", "--no-watch", "-j", "4", "--no-progress"],
            cwd=tmp,
            env=env,
            capture_output=True,
            text=True,
            timeout=300,
            check=False,
        )
        out = proc.stdout + proc.stderr
        print(out)
        print(f"return code of stepup build: {proc.returncode}")

        problems = []
        for line in out.splitlines():
            if "ConsistencyError: Unexpected file hash update" in line:
                problems.append("director crashed: " + line.strip())
        if not static_mode:
            try:
                with open(os.path.join(tmp, "c_start.txt")) as fh:
                    c_start = float(fh.read())
            except OSError:
                c_start = None
            try:
                with open(os.path.join(tmp, "s2_end.txt")) as fh:
                    s2_end = float(fh.read())
            except OSError:
                s2_end = None
            if c_start is not None and (s2_end is None or c_start < s2_end):
                early = "before S2 ended" if s2_end is None else f"{s2_end - c_start:.1f} s"
                with open(os.path.join(tmp, "copy.txt")) as fh:
                    seen = fh.read().strip().splitlines()[0]
                problems.append(
                    "consumer of big.bin was dispatched while the only producer of big.bin in "
                    f"the graph (S2) was still running ({early} before S2 wrote the file); "
                    f"it read the detached step's content: {seen!r} instead of 'two'"
                )
        if problems:
            print("DEFECT OBSERVED:")
            for problem in problems:
                print("  -", problem)
            return 1
        print("defect not observed (the re-declaration missed the hashing window?)")
        return 0
    finally:
        shutil.rmtree(tmp, ignore_errors=True)


if __name__ == "__main__":
    sys.exit(main())
