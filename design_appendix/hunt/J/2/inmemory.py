#!/usr/bin/env python3
"""Supplement to demo.py: the same history on an in-memory workflow, to show where it hangs.

Run as: cd /tmp/hunt_J && PYTHONPATH=/tmp/hunt_J /venv/bin/python _found/2/inmemory.py

Only public methods are used, in the order of the real program:
Scheduler.pop_next_job -> Step.reset_for_rerun (Executor.execute_job) -> Workflow.define_step
(DirectorHandler.define_step) -> Workflow.update_file_hashes + Step.mark_completed
(Executor.execute_job). The child process is killed after 6 s; faulthandler prints its stack
after 3 s. Exit code 1 when the hang is observed.
"""

import asyncio
import subprocess
import sys

CHILD = r'''
import asyncio, faulthandler, sys
sys.path.insert(0, "/tmp/hunt_J/tests")
from conftest import declare_static
from stepup.core.enums import HashUpdateCause, Need
from stepup.core.hash import StepHash
from stepup.core.scheduler import Scheduler
from stepup.core.sqlite3 import DBSession
from stepup.core.workflow import Workflow

H = StepHash(b"i" * 32, None, b"o" * 32, None)

async def main():
    with DBSession.open(":memory:") as db:
        wf = Workflow(db, dir_queue=None)
        await wf.initialize()
        sched = Scheduler(wf, db=db)
        await sched.initialize(None)
        async with db:
            declare_static(wf, wf.root, ["plan.py"])
            wf.define_step(wf.root, "./plan.py", inp_paths=["plan.py"], need=Need.PLAN, _safe=True)
        jp = await sched.pop_next_job(); plan = jp.step          # plan.py starts
        async with db: plan.reset_for_rerun()
        async with db: wf.define_step(plan, "./x.py")             # plan.py: step("./x.py")
        jx = await sched.pop_next_job(); x = jx.step              # x.py starts
        async with db: x.reset_for_rerun()
        async with db: wf.define_step(x, "./y.py")                # x.py: step("./y.py")
        async with db:                                            # x.py succeeds
            wf.update_file_hashes({}, cause=HashUpdateCause.SUCCEEDED); x.mark_completed(H, False)
        sched.record_job_completed(jx)
        jy = await sched.pop_next_job(); y = jy.step              # y.py starts
        async with db: y.reset_for_rerun()
        async with db:                                            # plan.py fails: x, y detached
            wf.update_file_hashes({}, cause=HashUpdateCause.FAILED); plan.mark_completed(None, False)
        sched.record_job_completed(jp)
        async with db:
            print("x detached:", x.is_detached(), " y detached:", y.is_detached(), " y state:", y.get_state().name, flush=True)
        faulthandler.dump_traceback_later(3)
        print("y.py (detached, RUNNING) calls step('./x.py') ...", flush=True)
        async with db:
            wf.define_step(y, "./x.py")
        print("define_step returned", flush=True)

asyncio.run(main())
'''


def main():
    proc = subprocess.Popen([sys.executable, "-u", "-c", CHILD], stdout=subprocess.PIPE, stderr=subprocess.STDOUT, text=True)
    try:
        out, _ = proc.communicate(timeout=6)
        hung = False
    except subprocess.TimeoutExpired:
        proc.kill()
        out, _ = proc.communicate()
        hung = True
    print(out)
    if hung:
        print("DEFECT: Workflow.define_step never returned (killed after 6 s).")
        return 1
    return 0


if __name__ == "__main__":
    sys.exit(main())
