#!/usr/bin/env python3
"""Demo: a detached-but-running step that defines itself or its own creator.

Run as: cd /tmp/hunt_J && PYTHONPATH=/tmp/hunt_J /venv/bin/python _found/2/demo.py

Both variants are real `stepup build -j3` runs in a temporary directory:

    plan.py  defines ./x.py, waits until ./y.py runs, then exits with code 1
    x.py     defines ./y.py and succeeds
    y.py     sleeps 3 s (so plan.py has been recorded as FAILED, which detaches x.py and
             y.py while y.py keeps running), then
       variant A: step("./y.py")   (defines itself)
       variant B: step("./x.py")   (defines its own creator)

While attached, either call is answered with a friendly GraphError
("Step (...) is defined by both ..."). While y.py is detached:

    A -> the director raises sqlite3.IntegrityError (CHECK constraint on node.creator)
    B -> the creator chain becomes a cycle (x.creator = y, y.creator = x) and the director
         never returns from the `UNION ALL` recursion in RECURSIVE_CHECK_WITH_PRODUCTS:
         100% CPU inside SQLite, event loop blocked, the build hangs forever.

Exit code 1 when either misbehaviour is observed, 0 otherwise.
"""

import os
import signal
import stat
import subprocess
import sys
import tempfile
import time

ROOT = "/tmp/hunt_J"

PLAN = """\
#!/usr/bin/env python3
import os, sys, time
from stepup.core.api import static, step

static("x.py", "y.py")
step("./x.py", inp="x.py")
while not os.path.exists("y.started"):
    time.sleep(0.1)
sys.exit(1)
"""

X = """\
#!/usr/bin/env python3
from stepup.core.api import step
step("./y.py", inp="y.py")
"""

Y = """\
#!/usr/bin/env python3
import time
from stepup.core.api import step
open("y.started", "w").close()
time.sleep(3.0)
step("./{target}.py", inp="{target}.py")
"""


def write_exe(path, text):
    with open(path, "w") as fh:
        fh.write(text)
    os.chmod(path, stat.S_IRWXU)


def children(pid):
    out = subprocess.run(
        ["ps", "-o", "pid=,args=", "--ppid", str(pid)], stdout=subprocess.PIPE, text=True, check=False
    ).stdout
    result = []
    for line in out.splitlines():
        words = line.split(None, 1)
        if len(words) == 2:
            result.append((int(words[0]), words[1]))
    return result


def cpu_seconds(pid):
    with open(f"/proc/{pid}/stat") as fh:
        fields = fh.read().rsplit(")", 1)[1].split()
    ticks = int(fields[11]) + int(fields[12])
    return ticks / os.sysconf("SC_CLK_TCK")


def run_variant(target, limit=30.0):
    """Return (finished, returncode, output, director_cpu_rate)."""
    env = dict(os.environ)
    env["PATH"] = "/venv/bin:" + env["PATH"]
    env["PYTHONPATH"] = ROOT
    for name in list(env):
        if name.startswith("STEPUP_"):
            del env[name]
    with tempfile.TemporaryDirectory(prefix="hunt_J_2_") as workdir:
        write_exe(os.path.join(workdir, "plan.py"), PLAN)
        write_exe(os.path.join(workdir, "x.py"), X)
        write_exe(os.path.join(workdir, "y.py"), Y.format(target=target))
        log_path = os.path.join(workdir, "build.log")
        with open(log_path, "w") as log:
            proc = subprocess.Popen(
                ["stepup", "build", "-j", "3", "--no-progress"],
                cwd=workdir,
                env=env,
                stdout=log,
                stderr=subprocess.STDOUT,
                start_new_session=True,
            )
        director_pid = None
        start = time.monotonic()
        rate = None
        try:
            while time.monotonic() - start < limit:
                if proc.poll() is not None:
                    break
                if director_pid is None:
                    for pid, args in children(proc.pid):
                        if "stepup.core.director" in args:
                            director_pid = pid
                time.sleep(0.2)
            finished = proc.poll() is not None
            if not finished and director_pid is not None:
                cpu0 = cpu_seconds(director_pid)
                time.sleep(3.0)
                cpu1 = cpu_seconds(director_pid)
                rate = (cpu1 - cpu0) / 3.0
        finally:
            if proc.poll() is None:
                try:
                    os.killpg(proc.pid, signal.SIGKILL)
                except ProcessLookupError:
                    pass
            if director_pid is not None:
                try:
                    os.kill(director_pid, signal.SIGKILL)
                except ProcessLookupError:
                    pass
            # Steps run in sessions of their own.
            subprocess.run(["pkill", "-9", "-f", workdir], check=False)
            proc.wait()
        with open(log_path) as fh:
            output = fh.read()
        return finished, proc.returncode, output, rate


def main():
    bad = False

    print("Variant A: detached running step ./y.py calls step('./y.py')")
    finished, rc, output, _ = run_variant("y")
    print(f"  build finished={finished} returncode={rc}")
    lines = [line for line in output.splitlines() if "Error" in line]
    for line in lines:
        print("  | " + line.strip()[:200])
    if "IntegrityError" in output:
        bad = True
        print("  DEFECT: the request was answered with sqlite3.IntegrityError instead of a GraphError.")

    print("Variant B: detached running step ./y.py calls step('./x.py'), x.py being its creator")
    finished, rc, output, rate = run_variant("x")
    print(f"  build finished={finished} returncode={rc}")
    for line in output.splitlines()[-6:]:
        print("  | " + line.strip()[:200])
    if not finished:
        bad = True
        print(
            f"  DEFECT: the build did not end within 30 s; the director used {rate:.2f} CPU-seconds "
            "per second meanwhile (busy loop inside SQLite, see README)."
        )
    return 1 if bad else 0


if __name__ == "__main__":
    sys.exit(main())
