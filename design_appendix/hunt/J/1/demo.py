#!/usr/bin/env python3
"""Demo: a glob pattern and a step output that it matches are only rejected in one order.

Run as: cd /tmp/hunt_J && PYTHONPATH=/tmp/hunt_J /venv/bin/python _found/1/demo.py

Three real `stepup build` runs in temporary directories (nothing is mocked):

A1. plan.py: step(out="out.txt") THEN glob("*.txt"), from scratch   -> accepted, exit code 0
A2. the very same directory, nothing changed, `stepup build` again  -> GraphError, build fails
B1. plan.py: glob("*.txt") THEN step(out="out.txt"), from scratch   -> GraphError, build fails

Exit code 1 when the asymmetry is observed (defect present), 0 otherwise.
"""

import os
import re
import sqlite3
import stat
import subprocess
import sys
import tempfile

ROOT = "/tmp/hunt_J"

PLAN_OUTPUT_FIRST = """\
#!/usr/bin/env python3
from stepup.core.api import glob, step

step("touch out.txt", out="out.txt", shell=True)
glob("*.txt")
"""

PLAN_GLOB_FIRST = """\
#!/usr/bin/env python3
from stepup.core.api import glob, step

glob("*.txt")
step("touch out.txt", out="out.txt", shell=True)
"""


def build(workdir):
    env = dict(os.environ)
    env["PATH"] = "/venv/bin:" + env["PATH"]
    env["PYTHONPATH"] = ROOT
    for name in list(env):
        if name.startswith("STEPUP_"):
            del env[name]
    cp = subprocess.run(
        ["stepup", "build", "-j", "1"],
        cwd=workdir,
        env=env,
        stdout=subprocess.PIPE,
        stderr=subprocess.STDOUT,
        text=True,
        timeout=120,
        check=False,
    )
    return cp.returncode, cp.stdout


def write_plan(workdir, text):
    path = os.path.join(workdir, "plan.py")
    with open(path, "w") as fh:
        fh.write(text)
    os.chmod(path, stat.S_IRWXU)


def glob_matches_product(workdir):
    """Return (pattern, path, state) of attached glob patterns matching attached build products."""
    con = sqlite3.connect(os.path.join(workdir, ".stepup", "graph.db"))
    globs = con.execute(
        "SELECT pattern, regex FROM nglob JOIN node ON node.i = nglob.node WHERE NOT node.detached"
    ).fetchall()
    products = con.execute(
        "SELECT label, state FROM node JOIN file ON file.node = node.i "
        "WHERE NOT node.detached AND state IN (15, 16, 17, 18)"
    ).fetchall()
    con.close()
    return [
        (pattern, label, state)
        for pattern, regex in globs
        for label, state in products
        if re.compile(regex).fullmatch(label)
    ]


def main():
    bad = False
    with tempfile.TemporaryDirectory(prefix="hunt_J_1a_") as dir_a:
        write_plan(dir_a, PLAN_OUTPUT_FIRST)
        rc_a1, out_a1 = build(dir_a)
        print(f"A1 output-then-glob, from scratch: exit code {rc_a1}")
        matches = glob_matches_product(dir_a)
        print(f"   attached glob patterns matching attached build products in graph.db: {matches}")
        rc_a2, out_a2 = build(dir_a)
        print(f"A2 same directory, nothing changed, second build: exit code {rc_a2}")
        for line in out_a2.splitlines():
            if "GraphError" in line:
                print("   " + line.strip())
    with tempfile.TemporaryDirectory(prefix="hunt_J_1b_") as dir_b:
        write_plan(dir_b, PLAN_GLOB_FIRST)
        rc_b1, out_b1 = build(dir_b)
        print(f"B1 glob-then-output, from scratch: exit code {rc_b1}")
        for line in out_b1.splitlines():
            if "GraphError" in line:
                print("   " + line.strip())

    if rc_a1 == 0 and rc_b1 != 0:
        bad = True
        print(
            "DEFECT: the same two declarations are accepted in one order (A1) "
            "and rejected in the other (B1)."
        )
    if rc_a1 == 0 and matches:
        bad = True
        print(
            "DEFECT: after the accepted build, an attached glob pattern matches "
            "a path that an attached step builds."
        )
    if rc_a1 == 0 and rc_a2 != 0:
        bad = True
        print(
            "DEFECT: rebuilding the unchanged project fails, although the first build succeeded."
        )
    return 1 if bad else 0


if __name__ == "__main__":
    sys.exit(main())
