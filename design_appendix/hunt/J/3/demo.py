#!/usr/bin/env python3
"""Demo: a volatile output is accepted as the input of a step when that step is recycled.

Run as: cd /tmp/hunt_J && PYTHONPATH=/tmp/hunt_J /venv/bin/python _found/3/demo.py

Real `stepup build -j1` runs in temporary directories (nothing is mocked):

plan v1:  static("v.txt"); step("cat v.txt > a.out", inp="v.txt", out="a.out")
plan v2:  step("date > v.txt", vol="v.txt"); step("cat v.txt > a.out", inp="v.txt", out="a.out")
plan v2s: the two lines of v2 swapped

A. build v1, then edit plan.py to v2 and build again   -> ACCEPTED, exit code 0, and graph.db holds
                                                           an attached VOLATILE file that is the input
                                                           of an attached SUCCEEDED step
B. build v1, then edit plan.py to v2s and build again  -> rejected (GraphError)
C. build v2 from scratch                               -> rejected (GraphError)

Exit code 1 when A is accepted while B or C is rejected (defect present), 0 otherwise.
"""

import os
import sqlite3
import stat
import subprocess
import sys
import tempfile

ROOT = "/tmp/hunt_J"

HEADER = "#!/usr/bin/env python3\nfrom stepup.core.api import static, step\n"
LINE_STATIC = 'static("v.txt")\n'
LINE_VOL = 'step("date > v.txt", vol="v.txt", shell=True)\n'
LINE_CAT = 'step("cat v.txt > a.out", inp="v.txt", out="a.out", shell=True)\n'

PLAN_V1 = HEADER + LINE_STATIC + LINE_CAT
PLAN_V2 = HEADER + LINE_VOL + LINE_CAT
PLAN_V2S = HEADER + LINE_CAT + LINE_VOL


def build(workdir):
    env = dict(os.environ)
    env["PATH"] = "/venv/bin:" + env["PATH"]
    env["PYTHONPATH"] = ROOT
    for name in list(env):
        if name.startswith("STEPUP_"):
            del env[name]
    cp = subprocess.run(
        ["stepup", "build", "-j", "1", "--no-progress"],
        cwd=workdir,
        env=env,
        stdout=subprocess.PIPE,
        stderr=subprocess.STDOUT,
        text=True,
        timeout=120,
        check=False,
    )
    return cp.returncode, cp.stdout


def write_plan(workdir, text):
    path = os.path.join(workdir, "plan.py")
    with open(path, "w") as fh:
        fh.write(text)
    os.chmod(path, stat.S_IRWXU)


def volatile_inputs(workdir):
    """Return (path, consumer label, consumer state) for attached VOLATILE inputs of attached steps."""
    con = sqlite3.connect(os.path.join(workdir, ".stepup", "graph.db"))
    rows = con.execute(
        "SELECT fnode.label, snode.label, step.state FROM node AS fnode "
        "JOIN file ON file.node = fnode.i "
        "JOIN dependency ON dependency.source = fnode.i "
        "JOIN node AS snode ON snode.i = dependency.sink "
        "JOIN step ON step.node = snode.i "
        "WHERE NOT fnode.detached AND NOT snode.detached AND file.state = 18"
    ).fetchall()
    con.close()
    return rows


def errors(output):
    return [line.strip() for line in output.splitlines() if "GraphError" in line]


def scenario(name, plans):
    with tempfile.TemporaryDirectory(prefix="hunt_J_3_") as workdir:
        with open(os.path.join(workdir, "v.txt"), "w") as fh:
            fh.write("hello\n")
        rc = None
        for plan in plans:
            write_plan(workdir, plan)
            rc, output = build(workdir)
        vols = volatile_inputs(workdir)
        print(f"{name}: exit code of the last build = {rc}")
        for line in errors(output):
            print("   " + line)
        if vols:
            print(f"   graph.db: attached VOLATILE inputs of attached steps (state 23 = SUCCEEDED): {vols}")
        return rc, vols


def main():
    rc_a, vols_a = scenario("A  v1 -> v2 (volatile declared, then the recycled consumer)", [PLAN_V1, PLAN_V2])
    rc_b, _ = scenario("B  v1 -> v2s (recycled consumer, then volatile declared)", [PLAN_V1, PLAN_V2S])
    rc_c, _ = scenario("C  v2 from scratch", [PLAN_V2])
    bad = False
    if rc_a == 0 and (rc_b != 0 or rc_c != 0):
        bad = True
        print(
            "DEFECT: the conflict 'volatile output used as an input' is rejected from scratch and in "
            "the other order, but accepted (build reports success) when the consumer is recycled."
        )
    if vols_a:
        bad = True
        print("DEFECT: the stored workflow has an attached volatile file with an attached consumer.")
    return 1 if bad else 0


if __name__ == "__main__":
    sys.exit(main())
