#!/usr/bin/env python3
"""C19: an invalid (static) build target is reported as FAILED or as a mere WARNING,
depending on the history of the database.

Run as:  cd /tmp/hunt_G && PYTHONPATH=/tmp/hunt_G /venv/bin/python _found/1/demo.py

Only the real command line is used (`stepup build [TARGET]` in a temporary project).
"""

import os
import subprocess
import sys
import tempfile

ROOT_PLAN = """\
#!/usr/bin/env python3
from stepup.core.api import static, plan
static("sub/plan.py")
plan("./plan.py", workdir="sub/")
"""

SUB_PLAN = """\
#!/usr/bin/env python3
from stepup.core.api import static, copy
static("inp.txt")
copy("inp.txt", "out.txt")
"""

FAILED = 4
WARNING = 8


def build(root, *targets):
    env = dict(os.environ)
    env["PATH"] = "/venv/bin:" + env.get("PATH", "")
    env["PYTHONPATH"] = "/tmp/hunt_G"
    for name in list(env):
        if name.startswith("STEPUP_"):
            del env[name]
    cp = subprocess.run(
        ["/venv/bin/stepup", "build", "-j", "1", *targets],
        cwd=root,
        env=env,
        stdout=subprocess.PIPE,
        stderr=subprocess.STDOUT,
        text=True,
        check=False,
    )
    return cp.returncode, cp.stdout


def interesting(out):
    keep = ("ERROR", "WARNING", "START", "SKIP", "SUCCESS", "FAIL", "UPDATED")
    return "\n".join("    " + line for line in out.splitlines() if any(k in line for k in keep))


def main():
    with tempfile.TemporaryDirectory(prefix="hunt_G_1_") as root:
        os.mkdir(f"{root}/sub")
        for path, text in (("plan.py", ROOT_PLAN), ("sub/plan.py", SUB_PLAN)):
            with open(f"{root}/{path}", "w") as fh:
                fh.write(text)
            os.chmod(f"{root}/{path}", 0o755)
        with open(f"{root}/sub/inp.txt", "w") as fh:
            fh.write("hello\n")

        rc1, out1 = build(root)
        print(f"[1] stepup build                      -> exit {rc1}")
        if rc1 != 0:
            print(out1)
            print("UNEXPECTED: the plain build must succeed")
            return 2

        # History A: nothing changed since the successful build.
        rc2, out2 = build(root, "sub/inp.txt")
        print(f"[2] stepup build sub/inp.txt          -> exit {rc2}   (nothing changed)")
        print(interesting(out2))

        # History B: a comment is appended to the top-level plan.py.
        # The plan runs again, re-creates the nested plan step identically,
        # which is recycled and SKIPPED, so sub/inp.txt is never re-declared.
        with open(f"{root}/plan.py", "a") as fh:
            fh.write("# just a comment\n")
        rc3, out3 = build(root, "sub/inp.txt")
        print(f"[3] stepup build sub/inp.txt          -> exit {rc3}   (comment added to plan.py)")
        print(interesting(out3))

        # History C: same sources again, nothing changed since [3].
        rc4, out4 = build(root, "sub/inp.txt")
        print(f"[4] stepup build sub/inp.txt          -> exit {rc4}   (nothing changed since [3])")
        print(interesting(out4))

    bad = False
    if not rc2 & FAILED:
        print("UNEXPECTED: run [2] did not set the FAILED bit")
    if not (rc3 & FAILED):
        bad = True
        print()
        print("DEFECT: sub/inp.txt is a static file, hence an invalid target.")
        print(f"  Run [2] and [4] say so: 'Invalid build target', exit {rc2} / {rc4} (FAILED bit).")
        print(f"  Run [3], same target, same files on disk except a comment in plan.py: exit {rc3},")
        print("  no FAILED bit, and the only message is the misleading")
        print("  'target(s) are not produced by any step in the workflow'.")
    return 1 if bad else 0


if __name__ == "__main__":
    sys.exit(main())
