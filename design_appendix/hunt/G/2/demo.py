#!/usr/bin/env python3
"""C18: the directory target `./` (the project root) selects no stored path at all.

Run as:  cd /tmp/hunt_G && PYTHONPATH=/tmp/hunt_G /venv/bin/python _found/2/demo.py

Part 1 uses the real command line (`stepup build ./` in a temporary project).
Part 2 feeds the value that `tui._normalize_targets` produces for `./` to the three
directory-target selections (`Scheduler.initialize` + `Workflow.reconcile_targets`,
`UPDATE_CHECK_AFTER` via `Scheduler.pop_next_job`, `Workflow.has_regular_output_under`)
on an in-memory workflow, using public methods in the order `director.serve` calls them.
"""

import asyncio
import os
import subprocess
import sys
import tempfile

from path import Path

from stepup.core.enums import Need
from stepup.core.scheduler import Scheduler
from stepup.core.sqlite3 import DBSession
from stepup.core.step import Step
from stepup.core.tui import _normalize_targets
from stepup.core.workflow import Workflow

PLAN = """\
#!/usr/bin/env python3
from stepup.core.api import static, copy
static("inp.txt")
copy("inp.txt", "out.txt")
copy("inp.txt", "sub/out.txt")
"""


def build(root, *targets):
    env = dict(os.environ)
    env["PATH"] = "/venv/bin:" + env.get("PATH", "")
    env["PYTHONPATH"] = "/tmp/hunt_G"
    for name in list(env):
        if name.startswith("STEPUP_"):
            del env[name]
    cp = subprocess.run(
        ["/venv/bin/stepup", "build", "-j", "1", *targets],
        cwd=root,
        env=env,
        stdout=subprocess.PIPE,
        stderr=subprocess.STDOUT,
        text=True,
        check=False,
    )
    return cp.returncode, cp.stdout


def make_project(root):
    with open(f"{root}/plan.py", "w") as fh:
        fh.write(PLAN)
    os.chmod(f"{root}/plan.py", 0o755)
    with open(f"{root}/inp.txt", "w") as fh:
        fh.write("hello\n")


def part1():
    bad = False
    with tempfile.TemporaryDirectory(prefix="hunt_G_2a_") as root:
        make_project(root)
        rc, out = build(root, "sub/")
        built = sorted(p for p in ("out.txt", "sub/out.txt") if os.path.exists(f"{root}/{p}"))
        print(f"[a] stepup build sub/  -> exit {rc}, built: {built}")
    with tempfile.TemporaryDirectory(prefix="hunt_G_2b_") as root:
        make_project(root)
        rc, out = build(root, "./")
        built = sorted(p for p in ("out.txt", "sub/out.txt") if os.path.exists(f"{root}/{p}"))
        print(f"[b] stepup build ./    -> exit {rc}, built: {built}")
        for line in out.splitlines():
            if "WARNING" in line or "START" in line:
                print("      " + line)
        if built != ["out.txt", "sub/out.txt"]:
            bad = True
            print("DEFECT: every output of the project lies under ./, yet none was built and")
            print("        StepUp claims the directory target matched no regular output.")
    return bad


async def part2():
    cwd = Path(os.getcwd())
    targets, target_dirs = _normalize_targets(["./"], cwd)
    print(f"[c] _normalize_targets(['./']) -> targets={targets} target_dirs={target_dirs}")
    with DBSession.open(":memory:") as db:
        wf = Workflow(db, dir_queue=None, targets=targets, target_dirs=target_dirs)
        await wf.initialize()
        sched = Scheduler(wf, db=db)
        await sched.initialize(None)
        async with db:
            wf.define_step(wf.root, "./plan.py", need=Need.PLAN, _safe=True)
            plan = wf.find(Step, "./plan.py")
            wf.define_step(plan, "cp inp.txt out.txt", out_paths=["out.txt"])
            wf.define_step(plan, "cp inp.txt sub/out.txt", out_paths=["sub/out.txt"])
            wf.reconcile_targets()
        job = await sched.pop_next_job()  # runs the metadata passes (UPDATE_CHECK_AFTER)
        assert job is not None  # the plan itself
        async with db:
            labels = [row[0] for row in db.execute("SELECT label FROM node WHERE kind='file'")]
            expected = sorted(labels)  # str.startswith on root-relative labels: all are under ./
            rows = db.execute(
                "SELECT node.label, step._implied_need FROM step JOIN node ON node.i = step.node "
                "WHERE node.label LIKE 'cp %' ORDER BY node.label"
            ).fetchall()
            under = wf.has_regular_output_under(target_dirs[0])
        print(f"    stored file labels under the root: {expected}")
        print(f"    _implied_need of the producers   : {[(lab, Need(n).name) for lab, n in rows]}")
        print(f"    has_regular_output_under('./')   : {under}")
        bad = under is False or any(Need(n) != Need.TARGET for _, n in rows)
        if bad:
            print("DEFECT: no producer was elevated to TARGET and the end-of-build check says that")
            print("        nothing is built under the root directory.")
        return bad


def main():
    bad1 = part1()
    bad2 = asyncio.run(part2())
    return 1 if (bad1 or bad2) else 0


if __name__ == "__main__":
    sys.exit(main())
