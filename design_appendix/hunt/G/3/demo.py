#!/usr/bin/env python3
"""C02: "a glob pattern may only match static files" is enforced in one arrival order only.

Run as:  cd /tmp/hunt_G && PYTHONPATH=/tmp/hunt_G /venv/bin/python _found/3/demo.py

Part 1 (in memory) declares the same two things in both orders with the public methods the
director's RPC handlers call (`Workflow.define_step`, `Workflow.register_nglob`), passing what
the real client passes: `glob("*.txt")` sends the matches found ON DISK, and a planned output
that has not been built yet is not on disk.

Part 2 builds one and the same project with `stepup build -j 1` and `stepup build -j 2`,
and then resumes the `-j 2` database with nothing changed.
"""

import asyncio
import os
import subprocess
import sys
import tempfile

from stepup.core.enums import Need
from stepup.core.exceptions import GraphError
from stepup.core.nglob import NamedGlob
from stepup.core.sqlite3 import DBSession
from stepup.core.step import Step
from stepup.core.workflow import Workflow

FAILED = 4


async def new_workflow(stack):
    db = stack.enter_context(DBSession.open(":memory:"))
    wf = Workflow(db, dir_queue=None)
    await wf.initialize()
    async with db:
        wf.define_step(wf.root, "./plan.py", need=Need.PLAN, _safe=True)
        plan = wf.find(Step, "./plan.py")
        wf.define_step(plan, "./a.py", need=Need.PLAN)
        wf.define_step(plan, "./b.py", need=Need.PLAN)
    return wf


async def part1():
    import contextlib

    results = {}
    with contextlib.ExitStack() as stack:
        # Order 1: a.py calls glob("*.txt") first (no match on disk), then b.py defines the step.
        wf = await new_workflow(stack)
        async with wf.db:
            a, b = wf.find(Step, "./a.py"), wf.find(Step, "./b.py")
            try:
                wf.register_nglob(a, NamedGlob("*.txt"))  # ng.files() == []: nothing on disk
                wf.define_step(b, "touch out.txt", out_paths=["out.txt"])
                results["glob first"] = "accepted"
            except GraphError as exc:
                results["glob first"] = f"GraphError: {str(exc)[:70]}..."
        # Order 2: b.py defines the step first, then a.py calls glob("*.txt").
        # out.txt is only PLANNED, so the client-side scan still finds nothing on disk.
        wf = await new_workflow(stack)
        async with wf.db:
            a, b = wf.find(Step, "./a.py"), wf.find(Step, "./b.py")
            try:
                wf.define_step(b, "touch out.txt", out_paths=["out.txt"])
                wf.register_nglob(a, NamedGlob("*.txt"))  # ng.files() == []: nothing on disk
                results["step first"] = "accepted"
                violations = wf.find_glob_violations()
                results["step first"] += f" (find_glob_violations() -> {violations})"
            except GraphError as exc:
                results["step first"] = f"GraphError: {str(exc)[:70]}..."
    for order, result in results.items():
        print(f"[1] {order:10s}: {result}")
    return results["glob first"].startswith("GraphError") != results["step first"].startswith(
        "GraphError"
    )


PLAN = """\
#!/usr/bin/env python3
from stepup.core.api import static, plan
static("a.py", "b.py")
plan("./a.py")
plan("./b.py")
"""

A_PY = """\
#!/usr/bin/env python3
import time
from stepup.core.api import glob
time.sleep(1.5)
glob("*.txt")
"""

B_PY = """\
#!/usr/bin/env python3
from stepup.core.api import step
step("sleep 4; touch out.txt", out="out.txt", shell=True)
"""


def build(root, njob):
    env = dict(os.environ)
    env["PATH"] = "/venv/bin:" + env.get("PATH", "")
    env["PYTHONPATH"] = "/tmp/hunt_G"
    for name in list(env):
        if name.startswith("STEPUP_"):
            del env[name]
    cp = subprocess.run(
        ["/venv/bin/stepup", "build", "-j", str(njob)],
        cwd=root,
        env=env,
        stdout=subprocess.PIPE,
        stderr=subprocess.STDOUT,
        text=True,
        check=False,
    )
    return cp.returncode, cp.stdout


def make_project(root):
    for name, text in (("plan.py", PLAN), ("a.py", A_PY), ("b.py", B_PY)):
        with open(f"{root}/{name}", "w") as fh:
            fh.write(text)
        os.chmod(f"{root}/{name}", 0o755)


def interesting(out):
    keep = ("ERROR", "WARNING", "START", "SKIP", "SUCCESS", "FAIL", "UPDATED", "GraphError")
    return "\n".join(
        "      " + line[:150] for line in out.splitlines() if any(k in line for k in keep)
    )


def part2():
    with tempfile.TemporaryDirectory(prefix="hunt_G_3a_") as root:
        make_project(root)
        rc1, out1 = build(root, 1)
        print(f"[2] stepup build -j 1 (from scratch)         -> exit {rc1}")
        print(interesting(out1))
    with tempfile.TemporaryDirectory(prefix="hunt_G_3b_") as root:
        make_project(root)
        rc2, out2 = build(root, 2)
        print(f"[3] stepup build -j 2 (from scratch)         -> exit {rc2}")
        print(interesting(out2))
        rc3, out3 = build(root, 2)
        print(f"[4] stepup build -j 2 (resumed, no changes)  -> exit {rc3}")
        print(interesting(out3))
    return rc1, rc2, rc3


def main():
    bad1 = asyncio.run(part1())
    if bad1:
        print("DEFECT: the same two declarations are rejected in one order and accepted in the other.")
    rc1, rc2, rc3 = part2()
    bad2 = bool(rc1 & FAILED) != bool(rc2 & FAILED) or (rc2 == 0 and rc3 != 0)
    if bad2:
        print(f"DEFECT: same sources: -j 1 exits {rc1}, -j 2 exits {rc2};")
        print(f"        resuming the successful -j 2 database with nothing changed exits {rc3}.")
    return 1 if (bad1 or bad2) else 0


if __name__ == "__main__":
    sys.exit(main())
