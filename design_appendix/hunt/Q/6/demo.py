#!/usr/bin/env python3
"""Defect: a FAILED run records the hash of output files it never wrote; cleaning then deletes them.

After a command has failed, `Executor.execute_job` hashes every declared output that exists on
disk and stores that hash (`update_file_hashes(..., cause=FAILED)`: PLANNED -> OUTDATED + hash),
"so outputs can be removed safely if they are no longer needed".  Nothing checks that the failed
command wrote the file.  A user's own file that happens to sit at the path of a declared output
(variant A), or the user's edits to a formerly built output (variant B), are thereby recorded as
if StepUp had produced them, and the next successful build removes them once the step is gone.

Run: cd /tmp/hunt_Q && PYTHONPATH=/tmp/hunt_Q /venv/bin/python _found/6/demo.py
Exits 1 when the defect is present, 0 otherwise.

Only real `stepup build` invocations are used (a real user history).
"""

import os
import shutil
import subprocess
import sys
import tempfile

ROOT = os.path.dirname(os.path.dirname(os.path.dirname(os.path.abspath(__file__))))
ENV = {k: v for k, v in os.environ.items() if not k.startswith("STEPUP_")}
ENV["PATH"] = "/venv/bin:" + ENV.get("PATH", "")
ENV["PYTHONPATH"] = ROOT

GEN_OK = """\
#!/usr/bin/env python3
import sys
with open(sys.argv[1], "w") as fh:
    fh.write("generated\\n")
"""

GEN_BUG = """\
#!/usr/bin/env python3
import sys
raise RuntimeError("bug in gen.py: fails before writing anything")
"""


def plan_text(out):
    return f"""\
#!/usr/bin/env python3
from stepup.core.api import static, step
static("gen.py")
step("./gen.py {out}", inp="gen.py", out="{out}")
"""


PLAN_NO_STEP = """\
#!/usr/bin/env python3
from stepup.core.api import static
static("gen.py")
"""


def write(path, text, exe=False):
    with open(path, "w") as fh:
        fh.write(text)
    if exe:
        os.chmod(path, 0o755)


def read(path):
    if not os.path.exists(path):
        return None
    with open(path) as fh:
        return fh.read()


def build(cwd, *args):
    p = subprocess.run(
        ["stepup", "build", "--no-progress", "-j", "1", *args],
        cwd=cwd, env=ENV, capture_output=True, text=True, timeout=120,
    )
    removed = [ln.split("│", 1)[1].strip() for ln in p.stdout.splitlines() if "REMOVE │" in ln]
    print(f"  $ stepup build {' '.join(args)}  -> rc={p.returncode}, removed={removed}")
    return p.returncode


def variant_a(base):
    print("== variant A: the user's own notes.txt sits where a (buggy) step wants to write")
    tmp = f"{base}/a"
    os.makedirs(tmp)
    mine = "my hand-written notes, never touched by any step\n"
    write(f"{tmp}/notes.txt", mine)
    write(f"{tmp}/gen.py", GEN_BUG, exe=True)
    write(f"{tmp}/plan.py", plan_text("notes.txt"), exe=True)
    rc1 = build(tmp)  # the step fails before writing
    assert rc1 != 0 and read(f"{tmp}/notes.txt") == mine
    print("   (the user notices the clash, lets the step write to report.txt and fixes gen.py)")
    write(f"{tmp}/gen.py", GEN_OK, exe=True)
    write(f"{tmp}/plan.py", plan_text("report.txt"), exe=True)
    rc2 = build(tmp)
    left = read(f"{tmp}/notes.txt")
    print(f"   notes.txt after the successful build: {left!r}")
    if rc2 == 0 and left != mine:
        print("   DEFECT (C06): cleaning deleted a file whose content no step ever wrote")
        return 1
    return 0


def variant_b(base):
    print("== variant B: the user edits a built output; the rebuild fails; the step is dropped")
    tmp = f"{base}/b"
    os.makedirs(tmp)
    write(f"{tmp}/gen.py", GEN_OK, exe=True)
    write(f"{tmp}/plan.py", plan_text("report.txt"), exe=True)
    assert build(tmp) == 0 and read(f"{tmp}/report.txt") == "generated\n"
    edited = "generated\nplus my manual corrections\n"
    write(f"{tmp}/report.txt", edited)
    write(f"{tmp}/gen.py", GEN_BUG, exe=True)
    rc2 = build(tmp)  # gen.py changed -> rerun -> fails before writing
    assert rc2 != 0 and read(f"{tmp}/report.txt") == edited
    print("   (the user gives up on the generator and removes the step, keeping the edited file)")
    write(f"{tmp}/plan.py", PLAN_NO_STEP, exe=True)
    rc3 = build(tmp)
    left = read(f"{tmp}/report.txt")
    print(f"   report.txt after the successful build: {left!r}")
    # Control: without the failed run in between, the same edit is respected.
    ctl = f"{base}/b_control"
    os.makedirs(ctl)
    write(f"{ctl}/gen.py", GEN_OK, exe=True)
    write(f"{ctl}/plan.py", plan_text("report.txt"), exe=True)
    assert build(ctl) == 0
    write(f"{ctl}/report.txt", edited)
    write(f"{ctl}/plan.py", PLAN_NO_STEP, exe=True)
    build(ctl)
    print(f"   control (no failed run in between): report.txt = {read(f'{ctl}/report.txt')!r}")
    if rc3 == 0 and left != edited:
        print("   DEFECT (C06): cleaning deleted an output that was modified after StepUp built it")
        return 1
    return 0


def main():
    base = tempfile.mkdtemp(prefix="hunt_Q_demo6_")
    try:
        bad = variant_a(base) + variant_b(base)
    finally:
        shutil.rmtree(base, ignore_errors=True)
    if bad:
        print(f"\n{bad} violation(s) observed.")
        return 1
    print("\nNo violation observed.")
    return 0


if __name__ == "__main__":
    sys.exit(main())
