#!/usr/bin/env python3
"""Defect: a SUCCEEDED step keeps counting as done after the producer of its input is dropped.

When a plan stops defining the step that builds `b.txt`, while another plan still defines a step
that consumes `b.txt`, the incremental build reports success (rc=0): the consumer stays SUCCEEDED
with a detached (= undeclared) input, and the orphaned `b.txt` stays on disk for ever.
A build from scratch of the same sources cannot run the consumer at all and ends with
`1 step(s) remained pending` (rc=16).

Run: cd /tmp/hunt_Q && PYTHONPATH=/tmp/hunt_Q /venv/bin/python _found/3/demo.py
Exits 1 when the defect is present, 0 otherwise.

Only real `stepup build` invocations are used (a real user history).
"""

import os
import shutil
import sqlite3
import subprocess
import sys
import tempfile

ROOT = os.path.dirname(os.path.dirname(os.path.dirname(os.path.abspath(__file__))))
ENV = {k: v for k, v in os.environ.items() if not k.startswith("STEPUP_")}
ENV["PATH"] = "/venv/bin:" + ENV.get("PATH", "")
ENV["PYTHONPATH"] = ROOT

PLAN = """\
#!/usr/bin/env python3
from stepup.core.api import static, plan
static("a.txt", "p1.py", "p2.py")
plan("./p1.py")
plan("./p2.py")
"""

P1_V1 = """\
#!/usr/bin/env python3
from stepup.core.api import step
step("cp a.txt b.txt", inp="a.txt", out="b.txt")
"""

P1_V2 = """\
#!/usr/bin/env python3
from stepup.core.api import step
"""

P2 = """\
#!/usr/bin/env python3
from stepup.core.api import step
step("cp b.txt c.txt", inp="b.txt", out="c.txt")
"""


def write(path, text, exe=False):
    with open(path, "w") as fh:
        fh.write(text)
    if exe:
        os.chmod(path, 0o755)


def build(cwd, *args):
    p = subprocess.run(
        ["stepup", "build", "--no-progress", "-j", "1", *args],
        cwd=cwd, env=ENV, capture_output=True, text=True, timeout=120,
    )
    started = [ln.split("│", 1)[1].strip() for ln in p.stdout.splitlines() if "START │" in ln]
    print(f"  $ stepup build {' '.join(args)}  -> rc={p.returncode}, started={started}")
    for ln in p.stdout.splitlines():
        if "remained pending" in ln or "UNDECLARED" in ln:
            print("      " + ln.strip())
    return p.returncode


def consumer_state(cwd):
    """Return (step state, detached flag and state of its input b.txt) from the database."""
    con = sqlite3.connect(f"file:{cwd}/.stepup/graph.db?mode=ro", uri=True)
    try:
        sys.path.insert(0, ROOT)
        from stepup.core.enums import FileState, StepState

        (st,) = con.execute(
            "SELECT state FROM step JOIN node ON node.i = step.node WHERE label = 'cp b.txt c.txt'"
        ).fetchone()
        row = con.execute(
            "SELECT detached, state FROM node JOIN file ON file.node = node.i "
            "WHERE kind = 'file' AND label = 'b.txt'"
        ).fetchone()
        inp = None if row is None else (bool(row[0]), FileState(row[1]).name)
        return StepState(st).name, inp
    finally:
        con.close()


PLAN_B = """\
#!/usr/bin/env python3
from stepup.core.api import static, plan
static("p1.py", "p2.py")
plan("./p1.py")
plan("./p2.py")
"""

P1B_V1 = """\
#!/usr/bin/env python3
from stepup.core.api import static
static("b.txt")
"""

P1B_V2 = """\
#!/usr/bin/env python3
from stepup.core.api import static
"""


def variant_static(base):
    """Same effect when the *static declaration* of the input is dropped instead of its producer."""
    print("\n== variant B: p1.py declares static('b.txt'), p2.py consumes it; the declaration is dropped")
    tmp = f"{base}/resumed_b"
    os.makedirs(tmp)
    write(f"{tmp}/plan.py", PLAN_B, exe=True)
    write(f"{tmp}/p1.py", P1B_V1, exe=True)
    write(f"{tmp}/p2.py", P2, exe=True)
    write(f"{tmp}/b.txt", "hello\n")
    assert build(tmp) == 0
    write(f"{tmp}/p1.py", P1B_V2, exe=True)
    rc2 = build(tmp)
    state, inp = consumer_state(tmp)
    print(f"  consumer 'cp b.txt c.txt': {state}; its input b.txt (detached, state) = {inp}")
    ref = f"{base}/scratch_b"
    os.makedirs(ref)
    for name in "plan.py", "p1.py", "p2.py", "b.txt":
        shutil.copy(f"{tmp}/{name}", f"{ref}/{name}")
    rc_ref = build(ref)
    state_ref, inp_ref = consumer_state(ref)
    print(f"  from scratch: rc={rc_ref} consumer {state_ref}; b.txt = {inp_ref}")
    if rc2 != rc_ref or state != state_ref:
        print(f"DEFECT (C01, variant B): incremental rc={rc2} consumer={state}; "
              f"from scratch rc={rc_ref} consumer={state_ref}")
        return 1
    return 0


def main():
    base = tempfile.mkdtemp(prefix="hunt_Q_demo3_")
    bad_b = 0
    try:
        bad_b = variant_static(base)
        print("\n== variant A: the producer step of the input is dropped")
        tmp = f"{base}/resumed"
        os.makedirs(tmp)
        write(f"{tmp}/plan.py", PLAN, exe=True)
        write(f"{tmp}/p1.py", P1_V1, exe=True)
        write(f"{tmp}/p2.py", P2, exe=True)
        write(f"{tmp}/a.txt", "hello\n")
        print("== build 1 (p1.py builds b.txt, p2.py turns b.txt into c.txt)")
        assert build(tmp) == 0
        print("== edit: p1.py no longer defines the step that builds b.txt")
        write(f"{tmp}/p1.py", P1_V2, exe=True)
        print("== build 2 and 3 (incremental)")
        rc2 = build(tmp)
        rc3 = build(tmp)
        state, inp = consumer_state(tmp)
        files = sorted(f for f in os.listdir(tmp) if f.endswith(".txt"))
        print(f"  consumer 'cp b.txt c.txt': {state}; its input b.txt (detached, state) = {inp}")
        print(f"  files: {files}")
        print("== reference: the same sources from scratch")
        ref = f"{base}/scratch"
        os.makedirs(ref)
        for name in "plan.py", "p1.py", "p2.py", "a.txt":
            shutil.copy(f"{tmp}/{name}", f"{ref}/{name}")
        rc_ref = build(ref)
        state_ref, inp_ref = consumer_state(ref)
        files_ref = sorted(f for f in os.listdir(ref) if f.endswith(".txt"))
        print(f"  consumer 'cp b.txt c.txt': {state_ref}; its input b.txt = {inp_ref}")
        print(f"  files: {files_ref}")
    finally:
        shutil.rmtree(base, ignore_errors=True)
    print()
    if (rc2, rc3) != (rc_ref, rc_ref) or state != state_ref or files != files_ref:
        print(
            f"DEFECT (C01): incremental rc={rc2},{rc3} consumer={state} files={files}\n"
            f"              from scratch rc={rc_ref} consumer={state_ref} files={files_ref}\n"
            "The step is wrongly considered done: nothing in the workflow declares its input."
        )
        return 1
    if bad_b:
        return 1
    print("No violation observed.")
    return 0


if __name__ == "__main__":
    sys.exit(main())
