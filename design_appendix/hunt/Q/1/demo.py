#!/usr/bin/env python3
"""Defect: files of detached nodes are not rescanned at startup (startup.rescan_files).

A source file (or an output) that is edited/removed while its node is detached is recycled with the
hash StepUp recorded before the edit. The step that consumes it is recycled as SUCCEEDED and never
reruns: the build returns 0 with a stale (or missing) output, and the *next* no-change build
suddenly runs a command.

Run: cd /tmp/hunt_Q && PYTHONPATH=/tmp/hunt_Q /venv/bin/python _found/1/demo.py
Exits 1 when the defect is present, 0 otherwise.

Only real `stepup build` invocations are used (a real user history).
"""

import os
import shutil
import subprocess
import sys
import tempfile

ROOT = os.path.dirname(os.path.dirname(os.path.dirname(os.path.abspath(__file__))))
ENV = {k: v for k, v in os.environ.items() if not k.startswith("STEPUP_")}
ENV["PATH"] = "/venv/bin:" + ENV.get("PATH", "")
ENV["PYTHONPATH"] = ROOT

PLAN_WITH_SUB = """\
#!/usr/bin/env python3
from stepup.core.api import static, plan
static("sub.py")
plan("./sub.py")
"""

PLAN_WITHOUT_SUB = """\
#!/usr/bin/env python3
from stepup.core.api import static, plan
static("sub.py")
"""

SUB = """\
#!/usr/bin/env python3
from stepup.core.api import static, step
static("c.txt")
step("cp c.txt d.txt", inp="c.txt", out="d.txt")
"""


def write(path, text, exe=False):
    with open(path, "w") as fh:
        fh.write(text)
    if exe:
        os.chmod(path, 0o755)


def read(path):
    if not os.path.exists(path):
        return None
    with open(path) as fh:
        return fh.read()


def build(cwd, *args):
    p = subprocess.run(
        ["stepup", "build", "--no-progress", "-j", "1", *args],
        cwd=cwd, env=ENV, capture_output=True, text=True, timeout=120,
    )
    started = [ln.split("│", 1)[1].strip() for ln in p.stdout.splitlines() if "START │" in ln]
    print(f"  $ stepup build {' '.join(args)}  -> rc={p.returncode}, started={started}")
    return p.returncode, started, p.stdout


def history(tmp, perturb, describe):
    """build; drop the sub-plan (--no-clean); perturb; re-add the sub-plan; build; build."""
    print(f"== History: {describe}")
    os.makedirs(tmp)
    write(f"{tmp}/plan.py", PLAN_WITH_SUB, exe=True)
    write(f"{tmp}/sub.py", SUB, exe=True)
    write(f"{tmp}/c.txt", "version 1\n")
    rc, _, _ = build(tmp)
    assert rc == 0 and read(f"{tmp}/d.txt") == "version 1\n"
    # Phase 2: the sub-plan is dropped; --no-clean keeps the detached nodes (and d.txt).
    write(f"{tmp}/plan.py", PLAN_WITHOUT_SUB, exe=True)
    rc, _, _ = build(tmp, "--no-clean")
    assert rc == 0
    # Phase 3: edit while detached, re-add the sub-plan unchanged.
    perturb(tmp)
    write(f"{tmp}/plan.py", PLAN_WITH_SUB, exe=True)
    rc3, started3, out3 = build(tmp)
    d3 = read(f"{tmp}/d.txt")
    # Phase 4: nothing changed.
    rc4, started4, _ = build(tmp)
    d4 = read(f"{tmp}/d.txt")
    # Reference: from scratch with the final sources.
    ref = tmp + "_scratch"
    os.makedirs(ref)
    for name in "plan.py", "sub.py", "c.txt":
        shutil.copy(f"{tmp}/{name}", f"{ref}/{name}")
    rcs, _, _ = build(ref)
    dref = read(f"{ref}/d.txt")
    print(f"  from scratch: rc={rcs} d.txt={dref!r}")
    print(f"  resumed     : rc={rc3} d.txt={d3!r}; after a no-change rebuild: d.txt={d4!r}")
    problems = []
    if rc3 == 0 and d3 != dref:
        problems.append(
            f"C01: build 3 returned 0 but d.txt is {d3!r}, from scratch it is {dref!r} (stale/missing)"
        )
    if rc3 == 0 and started4:
        problems.append(f"C04: a rebuild with nothing changed executed {started4}")
    for p in problems:
        print("  DEFECT:", p)
    return problems


def edit_static(tmp):
    print("  (edit c.txt while its node is detached)")
    write(f"{tmp}/c.txt", "version 2\n")


def remove_output(tmp):
    print("  (remove d.txt while its node is detached)")
    os.remove(f"{tmp}/d.txt")


def main():
    base = tempfile.mkdtemp(prefix="hunt_Q_demo1_")
    try:
        problems = []
        problems += history(f"{base}/a", edit_static, "static input edited while detached")
        problems += history(f"{base}/b", remove_output, "output removed while detached")
    finally:
        shutil.rmtree(base, ignore_errors=True)
    if problems:
        print(f"\n{len(problems)} violation(s) observed.")
        return 1
    print("\nNo violation observed.")
    return 0


if __name__ == "__main__":
    sys.exit(main())
