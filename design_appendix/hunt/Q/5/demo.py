#!/usr/bin/env python3
"""Defect: a remembered amended input blocks a changed plan for ever (deadlock), scratch is fine.

A PENDING step is not dispatched while one of its *remembered* amended (dynamic) inputs is an
attached PLANNED/OUTDATED file (UNAVAILABLE_INPUT_WHERE, case 1), even when the step's own initial
inputs changed, i.e. when the remembered amendment may be obsolete.  When the (new version of the)
step no longer needs that input but is needed to make its producer runnable, the incremental build
ends with "remained pending" on every retry, while a build from scratch of the same sources
succeeds.

Run: cd /tmp/hunt_Q && PYTHONPATH=/tmp/hunt_Q /venv/bin/python _found/5/demo.py
Exits 1 when the defect is present, 0 otherwise.

Only real `stepup build` invocations are used (a real user history).
"""

import os
import shutil
import subprocess
import sys
import tempfile

ROOT = os.path.dirname(os.path.dirname(os.path.dirname(os.path.abspath(__file__))))
ENV = {k: v for k, v in os.environ.items() if not k.startswith("STEPUP_")}
ENV["PATH"] = "/venv/bin:" + ENV.get("PATH", "")
ENV["PYTHONPATH"] = ROOT

# v1: p1.py reads x.txt, which a step of plan.py builds from a.txt.
PLAN_V1 = """\
#!/usr/bin/env python3
from stepup.core.api import static, step, plan
static("p1.py", "a.txt")
step("cp a.txt x.txt", inp="a.txt", out="x.txt")
plan("./p1.py")
"""

P1_V1 = """\
#!/usr/bin/env python3
from stepup.core.api import amend
amend(inp="x.txt")
with open("x.txt") as fh:
    print(fh.read())
"""

# v2: x.txt is now built from b.txt, which p1.py declares; p1.py no longer reads x.txt.
PLAN_V2 = """\
#!/usr/bin/env python3
from stepup.core.api import static, step, plan
static("p1.py")
step("cp b.txt x.txt", inp="b.txt", out="x.txt")
plan("./p1.py")
"""

P1_V2 = """\
#!/usr/bin/env python3
from stepup.core.api import static
static("b.txt")
"""


def write(path, text, exe=False):
    with open(path, "w") as fh:
        fh.write(text)
    if exe:
        os.chmod(path, 0o755)


def build(cwd, *args):
    p = subprocess.run(
        ["stepup", "build", "--no-progress", "-j", "1", *args],
        cwd=cwd, env=ENV, capture_output=True, text=True, timeout=120,
    )
    started = [ln.split("│", 1)[1].strip() for ln in p.stdout.splitlines() if "START │" in ln]
    print(f"  $ stepup build {' '.join(args)}  -> rc={p.returncode}, started={started}")
    show = False
    for ln in p.stdout.splitlines():
        if "remained pending" in ln:
            show = True
        elif "│" in ln:
            show = False
        if show and ln.strip() and not ln.startswith(("Create", "or add", "Paths in", "Run `", "──")):
            print("      " + ln.strip())
    return p.returncode


def main():
    base = tempfile.mkdtemp(prefix="hunt_Q_demo5_")
    try:
        tmp = f"{base}/resumed"
        os.makedirs(tmp)
        write(f"{tmp}/plan.py", PLAN_V1, exe=True)
        write(f"{tmp}/p1.py", P1_V1, exe=True)
        write(f"{tmp}/a.txt", "hello\n")
        write(f"{tmp}/b.txt", "world\n")
        print("== build 1 (v1: p1.py amends the input x.txt)")
        assert build(tmp) == 0
        print("== edit to v2: x.txt is built from b.txt, p1.py declares b.txt and drops the amend")
        write(f"{tmp}/plan.py", PLAN_V2, exe=True)
        write(f"{tmp}/p1.py", P1_V2, exe=True)
        rcs = [build(tmp), build(tmp), build(tmp, "-k")]
        print("== reference: the same v2 sources from scratch")
        ref = f"{base}/scratch"
        os.makedirs(ref)
        for name in "plan.py", "p1.py", "a.txt", "b.txt":
            shutil.copy(f"{tmp}/{name}", f"{ref}/{name}")
        rc_ref = build(ref)
        x_ref = open(f"{ref}/x.txt").read() if os.path.exists(f"{ref}/x.txt") else None
        x_res = open(f"{tmp}/x.txt").read() if os.path.exists(f"{tmp}/x.txt") else None
    finally:
        shutil.rmtree(base, ignore_errors=True)
    print(f"\nfrom scratch: rc={rc_ref} x.txt={x_ref!r}; incremental: rc={rcs} x.txt={x_res!r}")
    if rc_ref == 0 and any(rc != 0 for rc in rcs):
        print(
            "DEFECT (C01): the incremental build never gets beyond 'remained pending' "
            "(./p1.py waits for x.txt,\nwhose producer waits for the b.txt that only ./p1.py can "
            "declare), a build from scratch succeeds."
        )
        return 1
    print("No violation observed.")
    return 0


if __name__ == "__main__":
    sys.exit(main())
