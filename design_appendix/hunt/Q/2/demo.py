#!/usr/bin/env python3
"""Defect: the stale declarations of a recycled PENDING plan step block their own successors.

Moving a declaration (a static file, a step) from a sub-plan to the plan that calls it makes every
following incremental build fail with a GraphError that blames a declaration that no longer exists
in the sources, although a build from scratch of the same sources succeeds.

Run: cd /tmp/hunt_Q && PYTHONPATH=/tmp/hunt_Q /venv/bin/python _found/2/demo.py
Exits 1 when the defect is present, 0 otherwise.

Only real `stepup build` invocations are used (a real user history).
"""

import os
import shutil
import subprocess
import sys
import tempfile

ROOT = os.path.dirname(os.path.dirname(os.path.dirname(os.path.abspath(__file__))))
ENV = {k: v for k, v in os.environ.items() if not k.startswith("STEPUP_")}
ENV["PATH"] = "/venv/bin:" + ENV.get("PATH", "")
ENV["PYTHONPATH"] = ROOT

PLAN_V1 = """\
#!/usr/bin/env python3
from stepup.core.api import static, step, plan
static("sub.py")
plan("./sub.py")
"""

SUB_V1 = """\
#!/usr/bin/env python3
from stepup.core.api import static, step
static("a.txt")
step("cp a.txt b.txt", inp="a.txt", out="b.txt")
"""

# The two declarations move from sub.py to plan.py.
PLAN_V2 = """\
#!/usr/bin/env python3
from stepup.core.api import static, step, plan
static("sub.py")
plan("./sub.py")
static("a.txt")
step("cp a.txt b.txt", inp="a.txt", out="b.txt")
"""

SUB_V2 = """\
#!/usr/bin/env python3
from stepup.core.api import static, step
"""


def write(path, text, exe=False):
    with open(path, "w") as fh:
        fh.write(text)
    if exe:
        os.chmod(path, 0o755)


def build(cwd, *args):
    p = subprocess.run(
        ["stepup", "build", "--no-progress", "-j", "1", *args],
        cwd=cwd, env=ENV, capture_output=True, text=True, timeout=120,
    )
    started = [ln.split("│", 1)[1].strip() for ln in p.stdout.splitlines() if "START │" in ln]
    errors = [ln.strip() for ln in p.stdout.splitlines() if "GraphError" in ln]
    print(f"  $ stepup build {' '.join(args)}  -> rc={p.returncode}, started={started}")
    for e in errors:
        print("      " + e)
    return p.returncode, started, p.stdout


def main():
    base = tempfile.mkdtemp(prefix="hunt_Q_demo2_")
    try:
        tmp = f"{base}/resumed"
        os.makedirs(tmp)
        write(f"{tmp}/plan.py", PLAN_V1, exe=True)
        write(f"{tmp}/sub.py", SUB_V1, exe=True)
        write(f"{tmp}/a.txt", "hello\n")
        print("== build 1 (v1: sub.py declares a.txt and the cp step)")
        rc, _, _ = build(tmp)
        assert rc == 0
        print("== edit: move static('a.txt') and the cp step from sub.py to plan.py")
        write(f"{tmp}/plan.py", PLAN_V2, exe=True)
        write(f"{tmp}/sub.py", SUB_V2, exe=True)
        rcs = []
        for i in (2, 3, 4):
            print(f"== build {i} (v2, incremental)")
            rc, _, _ = build(tmp, *(["-k"] if i == 4 else []))
            rcs.append(rc)
        print("== reference: the same v2 sources from scratch")
        ref = f"{base}/scratch"
        os.makedirs(ref)
        for name in "plan.py", "sub.py", "a.txt":
            shutil.copy(f"{tmp}/{name}", f"{ref}/{name}")
        rc_ref, _, _ = build(ref)
        ok_ref = os.path.isfile(f"{ref}/b.txt")
    finally:
        shutil.rmtree(base, ignore_errors=True)
    print(f"\nfrom scratch: rc={rc_ref} (b.txt built: {ok_ref}); incremental builds: rc={rcs}")
    if rc_ref == 0 and any(rc != 0 for rc in rcs):
        print(
            "DEFECT (C01): the incremental build of valid sources fails (and keeps failing on every\n"
            "retry, also with --keep-going), while the build from scratch succeeds."
        )
        return 1
    print("No violation observed.")
    return 0


if __name__ == "__main__":
    sys.exit(main())
