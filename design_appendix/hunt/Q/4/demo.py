#!/usr/bin/env python3
"""Defect: in watch mode, changes that only concern detached nodes are thrown away.

`Watcher.record_change` asks `Workflow.change_is_relevant`, which only looks at *attached* file
nodes and at the glob patterns of *attached* steps.  A file that is edited (or a glob match that is
removed) while its node / the step that registered the pattern is detached is therefore never
recorded, although the rest of the code (update_file_hashes, mark_consuming_steps_pending,
process_nglob_changes(include_detached=True)) goes out of its way to keep detached nodes current
because they can be recycled.  When the plan brings the step back, it is recycled as SUCCEEDED with
the old hashes: the watch-mode rebuild is green and leaves a stale output.

Run: cd /tmp/hunt_Q && PYTHONPATH=/tmp/hunt_Q /venv/bin/python _found/4/demo.py
Exits 1 when the defect is present, 0 otherwise.

A real `stepup build -w --no-clean` session is driven with `stepup wait / rebuild / join`,
exactly like the watch_* examples in tests/examples do.
"""

import os
import shutil
import subprocess
import sys
import tempfile

ROOT = os.path.dirname(os.path.dirname(os.path.dirname(os.path.abspath(__file__))))
ENV = {k: v for k, v in os.environ.items() if not k.startswith("STEPUP_")}
ENV["PATH"] = "/venv/bin:" + ENV.get("PATH", "")
ENV["PYTHONPATH"] = ROOT

PLAN_WITH_SUB = """\
#!/usr/bin/env python3
from stepup.core.api import static, plan
static("sub.py")
plan("./sub.py")
"""

PLAN_WITHOUT_SUB = """\
#!/usr/bin/env python3
from stepup.core.api import static, plan
static("sub.py")
"""

SUB = """\
#!/usr/bin/env python3
from stepup.core.api import static, step, glob
static("c.txt")
step("cp c.txt d.txt", inp="c.txt", out="d.txt")
static("g_*.txt")
names = sorted(str(p) for p in glob("g_*.txt"))
step("echo " + " ".join(names) + " > list.txt", shell=True, inp=names, out="list.txt")
"""


def write(path, text, exe=False):
    with open(path, "w") as fh:
        fh.write(text)
    if exe:
        os.chmod(path, 0o755)


def read(path):
    if not os.path.exists(path):
        return None
    with open(path) as fh:
        return fh.read()


def tool(cwd, *args):
    p = subprocess.run(
        ["stepup", *args], cwd=cwd, env=ENV, capture_output=True, text=True, timeout=120
    )
    if p.returncode != 0:
        raise RuntimeError(f"stepup {' '.join(args)} failed: {p.stdout}{p.stderr}")


def main():
    base = tempfile.mkdtemp(prefix="hunt_Q_demo4_")
    tmp = f"{base}/watch"
    os.makedirs(tmp)
    write(f"{tmp}/plan.py", PLAN_WITH_SUB, exe=True)
    write(f"{tmp}/sub.py", SUB, exe=True)
    write(f"{tmp}/c.txt", "version 1\n")
    write(f"{tmp}/g_1.txt", "one\n")
    write(f"{tmp}/g_2.txt", "two\n")
    out = open(f"{base}/stdout.txt", "w")
    proc = subprocess.Popen(
        ["stepup", "build", "-w", "--no-clean", "--no-progress", "-j", "1"],
        cwd=tmp, env=ENV, stdout=out, stderr=subprocess.STDOUT,
    )
    try:
        tool(tmp, "wait")
        print("== phase 1 built:", read(f"{tmp}/d.txt").strip(), "|", read(f"{tmp}/list.txt").strip())
        print("== phase 2: drop plan('./sub.py') (its nodes become detached; --no-clean keeps them)")
        write(f"{tmp}/plan.py", PLAN_WITHOUT_SUB, exe=True)
        tool(tmp, "wait", "-u", "plan.py")
        tool(tmp, "rebuild")
        tool(tmp, "wait")
        print("== phase 3: edit c.txt, remove g_2.txt, then put plan('./sub.py') back")
        write(f"{tmp}/c.txt", "version 2\n")
        os.remove(f"{tmp}/g_2.txt")
        write(f"{tmp}/plan.py", PLAN_WITH_SUB, exe=True)
        # inotify delivers in order: once plan.py is seen, the two earlier events were handled too.
        tool(tmp, "wait", "-u", "plan.py")
        tool(tmp, "rebuild")
        tool(tmp, "wait")
        d3, l3 = read(f"{tmp}/d.txt"), read(f"{tmp}/list.txt")
        tool(tmp, "join")
        rc = proc.wait(timeout=60)
    finally:
        if proc.poll() is None:
            proc.kill()
        out.close()
    stdout = read(f"{base}/stdout.txt")
    phase3 = stdout.split("PHASE │ watch")[2] if stdout.count("PHASE │ watch") >= 3 else stdout
    print("-- what the session printed for phase 3:")
    for ln in phase3.splitlines():
        if "│" in ln and "DIRECTOR" not in ln:
            print("   " + ln)
    # Reference from scratch.
    ref = f"{base}/scratch"
    os.makedirs(ref)
    for name in "plan.py", "sub.py", "c.txt", "g_1.txt":
        shutil.copy(f"{tmp}/{name}", f"{ref}/{name}")
    p = subprocess.run(
        ["stepup", "build", "--no-progress", "-j", "1"], cwd=ref, env=ENV,
        capture_output=True, text=True, timeout=120,
    )
    dref, lref = read(f"{ref}/d.txt"), read(f"{ref}/list.txt")
    shutil.rmtree(base, ignore_errors=True)
    print(f"watch session: rc={rc} d.txt={d3!r} list.txt={l3!r}")
    print(f"from scratch : rc={p.returncode} d.txt={dref!r} list.txt={lref!r}")
    problems = []
    if d3 != dref:
        problems.append("C01: d.txt is stale after the watch-mode rebuild (c.txt edit was dropped)")
    if l3 != lref:
        problems.append("C01: list.txt is stale after the watch-mode rebuild (glob change dropped)")
    for msg in problems:
        print("DEFECT:", msg)
    return 1 if problems else 0


if __name__ == "__main__":
    sys.exit(main())
