#!/usr/bin/env python3
"""A file that a step amended as output before it was declared again while running is orphaned.

Real `stepup build -j 3` runs in temporary directories; nothing of stepup.core is patched.

Project (see PLAN, SUB, WORK below):

    plan.py  : static files; step ./mkx.sh -> x.txt (takes 1.5 s); step ./sub.py (a nested plan)
    sub.py   : declares ./work.py with out=w.txt and with inp=[work.py] as long as x.txt does
               not exist and inp=[work.py, x.txt] once it does; then amend(inp="x.txt").
               First run: x.txt is not built yet -> sub.py is DEFERRED, runs again after mkx.sh.
    work.py  : without x.txt it amends the extra output extra.txt, writes it, works for 4 s;
               it always writes w.txt.

History of the build (all by StepUp itself):
 1. sub.py (1st run) declares work.py [inp: work.py]; work.py starts, amends out=extra.txt, writes it.
 2. sub.py is deferred (x.txt unavailable); mkx.sh succeeds; sub.py runs again
    (reset_for_rerun detaches the running work.py) and declares work.py [inp: work.py, x.txt]:
    not fully recyclable -> Trellis.create re-creates the row (kept RUNNING, F56) and detaches
    the products of the step, among them the amended output extra.txt (state PLANNED, no hash).
 3. The old command ends. Executor._restart_if_declared_again hashes `run.launched_decl[2]`,
    i.e. only the outputs DECLARED at launch (w.txt), and makes the step pending.
 4. work.py runs again, now with x.txt: it does not amend extra.txt. The build succeeds (rc 0).
 5. Cleanup: extra.txt is a detached PLANNED file without hash; File.before_delete queues
    nothing for it. The node is deleted, the file stays on disk, unknown to StepUp for ever.

Control (same commands, but the step is not declared again; instead work.py is deferred itself
after amending extra.txt and runs a second time without amending it): there, the regular end of
execute_job hashes ALL outputs of the step, amended ones included, and the cleanup removes
extra.txt.  Exit status 1 = defect present.
"""

import os
import shutil
import subprocess
import sys
import tempfile

ENV = dict(os.environ)
ENV["PATH"] = "/venv/bin:" + ENV["PATH"]
ENV["PYTHONPATH"] = "/tmp/hunt_U"
for key in list(ENV):
    if key.startswith("STEPUP_"):
        del ENV[key]

PLAN = """\
#!/usr/bin/env python3
from stepup.core.api import static, step

static("sub.py", "work.py", "mkx.sh")
step("./mkx.sh", inp="mkx.sh", out="x.txt")
step("./sub.py", inp="sub.py")
"""

MKX = """\
#!/usr/bin/env bash
sleep 1.5
echo hello > x.txt
"""

# Subject: the declaration of the running step changes between the two runs of sub.py.
SUB_REDECLARE = """\
#!/usr/bin/env python3
import os
from stepup.core.api import amend, step

have_x = os.path.exists("x.txt")
step("./work.py", inp=["work.py", "x.txt"] if have_x else ["work.py"], out="w.txt")
amend(inp="x.txt")
"""

WORK_REDECLARE = """\
#!/usr/bin/env python3
import os, time
from stepup.core.api import amend

with open("runs.log", "a") as fh:
    fh.write("start\\n")
if not os.path.exists("x.txt"):
    amend(out="extra.txt")
    with open("extra.txt", "w") as fh:
        fh.write("fallback\\n")
    time.sleep(4)
with open("w.txt", "w") as fh:
    fh.write("done\\n")
"""

# Control: the declaration never changes, work.py is deferred itself and runs twice.
SUB_CONTROL = """\
#!/usr/bin/env python3
from stepup.core.api import step

step("./work.py", inp=["work.py"], out="w.txt")
"""

WORK_CONTROL = """\
#!/usr/bin/env python3
import os, time
from stepup.core.api import amend

with open("runs.log", "a") as fh:
    fh.write("start\\n")
if not os.path.exists("x.txt"):
    amend(out="extra.txt")
    with open("extra.txt", "w") as fh:
        fh.write("fallback\\n")
amend(inp="x.txt")
with open("w.txt", "w") as fh:
    fh.write("done\\n")
"""


def build(sub, work):
    root = tempfile.mkdtemp(prefix="huntU_amended_out_")
    try:
        for name, text in [("plan.py", PLAN), ("mkx.sh", MKX), ("sub.py", sub), ("work.py", work)]:
            path = os.path.join(root, name)
            with open(path, "w") as fh:
                fh.write(text)
            os.chmod(path, 0o755)
        cp = subprocess.run(
            ["stepup", "build", "-j", "3"],
            cwd=root,
            env=ENV,
            stdin=subprocess.DEVNULL,
            stdout=subprocess.PIPE,
            stderr=subprocess.STDOUT,
            text=True,
            timeout=120,
            check=False,
        )
        with open(os.path.join(root, "runs.log")) as fh:
            nrun = len(fh.readlines())
        return cp.returncode, cp.stdout, nrun, os.path.exists(os.path.join(root, "extra.txt"))
    finally:
        shutil.rmtree(root, ignore_errors=True)


def main():
    rc_c, out_c, nrun_c, extra_c = build(SUB_CONTROL, WORK_CONTROL)
    print(f"control  (work.py deferred and rerun)     : rc={rc_c} runs of work.py={nrun_c} "
          f"extra.txt on disk after build={extra_c}")
    rc_s, out_s, nrun_s, extra_s = build(SUB_REDECLARE, WORK_REDECLARE)
    print(f"subject  (work.py declared again, running): rc={rc_s} runs of work.py={nrun_s} "
          f"extra.txt on disk after build={extra_s}")
    if rc_c != 0 or nrun_c != 2 or extra_c:
        print("The control did not behave as expected; output:\n" + out_c)
        return 2
    if rc_s != 0 or nrun_s != 2:
        print("The subject history was not reproduced (timing?); output:\n" + out_s)
        return 2
    if extra_s:
        print(out_s)
        print(
            "DEFECT: the build succeeded with cleanup, work.py ran a second time without "
            "amending extra.txt,\nyet extra.txt (an output of the discarded run) is still on disk "
            "and no longer in the graph."
        )
        return 1
    print("extra.txt was removed: no defect.")
    return 0


if __name__ == "__main__":
    sys.exit(main())
