#!/usr/bin/env python3
"""A succeeded step whose input lost its declaration stays SUCCEEDED: resumed != from scratch.

Run as:  cd /tmp/hunt_K && PYTHONPATH=/tmp/hunt_K /venv/bin/python _found/4/demo.py

For two variants of a two-line plan, the demo

1. builds version 1 from scratch (exit 0),
2. edits plan.py so that the *declaration of an input* of a step disappears while the step stays
   (variant a: the `static("data.txt")` call is dropped,
   variant b: the step that builds `a.txt` is dropped),
3. rebuilds with the existing database: exit 0, the consumer is not even looked at,
4. rebuilds once more with nothing changed: exit 0,
5. removes `.stepup` and the outputs and builds the same sources from scratch: exit 16 (PENDING),
   "Unavailable inputs: UNDECLARED".

The demo exits 1 when the resumed build with nothing changed (4) and the build from scratch (5)
of the same sources disagree, and prints the graph of the consumer in both cases.
"""

import os
import subprocess
import sys
import tempfile
from pathlib import Path

ROOT = "/tmp/hunt_K"

VARIANTS = {
    "a: static() call dropped, consumer kept": {
        "v1": """\
#!/usr/bin/env python3
from stepup.core.api import static, step

static("data.txt")
step("cp data.txt copy.txt", inp="data.txt", out="copy.txt")
""",
        "v2": """\
#!/usr/bin/env python3
from stepup.core.api import static, step

step("cp data.txt copy.txt", inp="data.txt", out="copy.txt")
""",
        "extra": {"data.txt": "hi\n"},
        "outputs": ["copy.txt"],
    },
    "b: producer step dropped, consumer kept": {
        "v1": """\
#!/usr/bin/env python3
from stepup.core.api import step

step("echo hello > a.txt", out="a.txt", shell=True)
step("cp a.txt copy.txt", inp="a.txt", out="copy.txt")
""",
        "v2": """\
#!/usr/bin/env python3
from stepup.core.api import step

step("cp a.txt copy.txt", inp="a.txt", out="copy.txt")
""",
        "extra": {},
        "outputs": ["copy.txt", "a.txt"],
    },
}


def run(workdir: Path, *argv: str) -> tuple[int, str]:
    env = dict(os.environ)
    env["PATH"] = "/venv/bin:" + env.get("PATH", "")
    env["PYTHONPATH"] = ROOT
    for name in list(env):
        if name.startswith("STEPUP_"):
            del env[name]
    cp = subprocess.run(
        ["/venv/bin/stepup", *argv],
        cwd=workdir,
        env=env,
        stdout=subprocess.PIPE,
        stderr=subprocess.STDOUT,
        text=True,
        timeout=300,
        check=False,
    )
    return cp.returncode, cp.stdout


def consumer_graph(workdir: Path) -> str:
    """Format the consumer step as `stepup graph` would, straight from the database."""
    import asyncio

    from stepup.core.sqlite3 import DBSession
    from stepup.core.workflow import Workflow

    async def fmt() -> str:
        with DBSession.open(str(workdir / ".stepup" / "graph.db")) as db:
            workflow = Workflow(db, dir_queue=None)
            await workflow.initialize()
            async with db:
                text = workflow.format_str()
        blocks = [block for block in text.split("\n\n") if block.startswith("step:cp ")]
        return "\n".join("      " + line for line in "\n\n".join(blocks).splitlines())

    return asyncio.run(fmt())


def story(lines: str) -> str:
    words = ("START", "SUCCESS", "SKIP", "FAIL ", "WARNING", "UNDECLARED", "CONFIRMED", "REMOVE")
    return "\n".join("      " + line for line in lines.splitlines() if any(w in line for w in words))


def main() -> int:
    bad = False
    for title, variant in VARIANTS.items():
        print(f"=== variant {title} ===")
        with tempfile.TemporaryDirectory(prefix="hunt_K_4_") as tmp:
            workdir = Path(tmp)
            (workdir / "plan.py").write_text(variant["v1"])
            (workdir / "plan.py").chmod(0o755)
            for name, content in variant["extra"].items():
                (workdir / name).write_text(content)
            rc1, _ = run(workdir, "build", "-j", "1")
            print(f"  1. build v1 from scratch: exit {rc1}")
            (workdir / "plan.py").write_text(variant["v2"])
            rc2, out2 = run(workdir, "build", "-j", "1")
            print(f"  2. plan.py edited, resumed build: exit {rc2}")
            print(story(out2))
            rc3, out3 = run(workdir, "build", "-j", "1")
            print(f"  3. nothing changed, resumed build: exit {rc3}")
            print(story(out3))
            print("     the consumer in the resumed graph:")
            print(consumer_graph(workdir))
            for path in [workdir / ".stepup" / "graph.db", *(workdir / p for p in variant["outputs"])]:
                path.unlink(missing_ok=True)
            rc4, out4 = run(workdir, "build", "-j", "1")
            print(f"  4. same sources, from scratch: exit {rc4}")
            print(story(out4))
            print("     the consumer in the graph from scratch:")
            print(consumer_graph(workdir))
            if rc3 != rc4:
                bad = True
    if bad:
        print()
        print("DEFECT: for the same sources, a build resumed from a valid database with nothing")
        print("changed exits 0, while a build from scratch exits 16 (PENDING). The resumed graph")
        print("keeps a SUCCEEDED step whose input is a detached node that nothing declares,")
        print("and nothing in the end-of-build report mentions it.")
        return 1
    print("No defect observed.")
    return 0


if __name__ == "__main__":
    sys.exit(main())
