"""Random histories through public methods; compare cached scheduling columns with definitions.

Supporting evidence for finding 1 (not the demo). Usage:

    cd /tmp/hunt_K && PYTHONPATH=/tmp/hunt_K /venv/bin/python _found/1/random_histories.py 200 1500
    cd /tmp/hunt_K && FIX1=1 PYTHONPATH=/tmp/hunt_K /venv/bin/python _found/1/random_histories.py 0 3000

Arguments: first seed, number of seeds. Every seed drives 300 random actions (pop a job, let a
running step declare static files / define steps / amend / hold, finish a step as succeeded, failed
or deferred, hash-check a step as skipped or not, change a static file) through the public
`Workflow` / `Step` / `Scheduler` methods, and compares `_safe`, `_safe_ignoring_hold`, `_ready`,
`_has_hash` and `_implied_need` with their definitions inside `pop_next_job`, right before the
selection. Without `FIX1` a few seeds per thousand end in "_safe mismatch ... cached (0,0)
definition (1,1)", always a flagged step below an unflagged one below a flagged one.
With `FIX1=1` (the depth-based fix of README.md, monkeypatched into `FILL_SAFE_UPDATE`) no seed
in 0..2999 reports anything. The "external change" action may happen while steps run, which a
build without --watch does not do; it stands in for any completion that flags a deep step.
"""

import asyncio
import random
import sys

sys.path.insert(0, "/tmp/hunt_K/tests")
from conftest import fake_hash  # noqa: E402

import stepup.core.scheduler as sch  # noqa: E402
from stepup.core.enums import FileState, HashUpdateCause, Need, StepState  # noqa: E402
from stepup.core.exceptions import GraphError  # noqa: E402
from stepup.core.file import File  # noqa: E402
from stepup.core.hash import StepHash  # noqa: E402
from stepup.core.sqlite3 import DBSession  # noqa: E402
from stepup.core.step import Step, unavailable_input_sql  # noqa: E402
from stepup.core.workflow import Workflow  # noqa: E402

H = StepHash(b"i", None, b"o", None)
OK = (StepState.RUNNING.value, StepState.SUCCEEDED.value)


class Mismatch(Exception):
    pass


def check(db, wf, log):
    """Compare cached columns with their definitions. Called right before selection."""
    rows = db.execute(
        "SELECT node.i, node.label, node.creator, node.detached, step.state, step._holding, "
        "step._safe, step._safe_ignoring_hold, step._ready, step._implied_need, step.need, "
        "step._has_hash, step.deferred "
        "FROM step JOIN node ON node.i = step.node"
    ).fetchall()
    info = {r[0]: r for r in rows}
    for i, label, creator, detached, state, holding, safe, safe_nh, ready, ineed, need, hh, dfr in rows:
        if detached:
            continue
        # definition of safe
        s = 1
        snh = 1
        c = creator
        while c is not None and c in info:
            _, _, cc, cdet, cstate, chold, *_ = info[c]
            if cstate not in OK:
                s = 0
                snh = 0
            if chold != 0:
                s = 0
            c = cc
        if state == StepState.PENDING.value and (s != safe or snh != safe_nh):
            raise Mismatch(
                f"_safe mismatch for {label}: cached ({safe},{safe_nh}) definition ({s},{snh})"
            )
        r = db.execute(
            f"SELECT NOT EXISTS ({unavailable_input_sql('?')})".replace("= ?", "= ?"), (i,)
        ).fetchone()[0]
        if r != ready:
            raise Mismatch(f"_ready mismatch for {label}: cached {ready} definition {r}")
        hh_def = db.execute("SELECT EXISTS (SELECT 1 FROM step_hash WHERE node = ?)", (i,)).fetchone()[0]
        if hh_def != hh:
            raise Mismatch(f"_has_hash mismatch for {label}")
    # implied need fixpoint over attached steps
    att = {r[0]: r for r in rows if not r[3]}
    need = {i: att[i][10] for i in att}
    changed = True
    while changed:
        changed = False
        for i in att:
            q = db.execute(
                "SELECT DISTINCT dep2.sink FROM dependency AS dep1 JOIN dependency AS dep2 "
                "ON dep2.source = dep1.sink WHERE dep1.source = ?",
                (i,),
            ).fetchall()
            m = need[i]
            for (j,) in q:
                if j in att:
                    m = max(m, need[j])
            if m != need[i]:
                need[i] = m
                changed = True
    for i in att:
        if need[i] != att[i][9]:
            raise Mismatch(
                f"_implied_need mismatch for {att[i][1]}: cached {att[i][9]} definition {need[i]}"
            )


def eligible_exists(db, wf):
    """After pop returned None: is there a step that satisfies the dispatch conditions by definition?"""
    rows = db.execute(
        "SELECT node.i, node.label, node.creator, step.state, step.deferred, step._implied_need, "
        "step._has_hash FROM step JOIN node ON node.i = step.node WHERE NOT node.detached"
    ).fetchall()
    allsteps = {
        r[0]: r
        for r in db.execute(
            "SELECT node.i, node.creator, step.state, step._holding FROM step JOIN node ON node.i = step.node"
        )
    }
    out = []
    for i, label, creator, state, deferred, inn, hh in rows:
        if state != StepState.PENDING.value or deferred or inn <= Need.OPTIONAL.value:
            continue
        s = 1
        c = creator
        while c is not None and c in allsteps:
            _, cc, cstate, chold = allsteps[c]
            if cstate not in OK or chold != 0:
                s = 0
            c = cc
        if not s:
            continue
        r = db.execute(f"SELECT NOT EXISTS ({unavailable_input_sql('?')})", (i,)).fetchone()[0]
        if r:
            out.append(label)
    return out


HOOK = {}
import os
if os.environ.get("FIX1"):
    sql = sch.FILL_SAFE_UPDATE
    sql = sql.replace("trace(i, safe, chain, safe_nh, chain_nh)", "trace(i, safe, chain, safe_nh, chain_nh, depth)")
    sql = sql.replace("AND s.state IN (22, 23)\n    FROM step AS s", "AND s.state IN (22, 23),\n        0\n    FROM step AS s")
    sql = sql.replace("trace.chain_nh AND sp.state IN (22, 23)\n    FROM trace", "trace.chain_nh AND sp.state IN (22, 23),\n        trace.depth + 1\n    FROM trace")
    sql = sql.replace("SELECT i, MIN(safe), MIN(safe_nh) FROM trace GROUP BY i", "SELECT i, safe, safe_nh FROM (SELECT i, safe, safe_nh, MAX(depth) FROM trace GROUP BY i)")
    assert sql.count("depth") == 3
    sch.FILL_SAFE_UPDATE = sql
_orig_get_next_step = sch.Scheduler._get_next_step


def _patched_get_next_step(self):
    HOOK["fn"]()
    res = _orig_get_next_step(self)
    if res is None:
        left = HOOK["none"]()
        if left:
            raise Mismatch(f"pop returned None but eligible by definition: {left}")
    return res


sch.Scheduler._get_next_step = _patched_get_next_step


class Sim:
    def __init__(self, seed):
        self.rng = random.Random(seed)
        self.log = []
        self.running = {}  # step.i -> (job, step)
        self.scripts = {}  # label -> list of actions
        self.files = [f"f{k}.txt" for k in range(6)]
        self.nlabel = 0

    def gen_script(self, depth):
        rng = self.rng
        script = []
        n = rng.randint(0, 3) if depth < 3 else 0
        for _ in range(n):
            kind = rng.choice(["plan", "work", "work", "static"])
            if kind == "static":
                script.append(("static", rng.choice(self.files)))
            else:
                self.nlabel += 1
                label = f"{kind}{self.nlabel}"
                inp = rng.sample(self.files, rng.randint(0, 2))
                out = [f"o_{label}.txt"] if rng.random() < 0.7 else []
                if out and rng.random() < 0.5:
                    self.files.append(out[0])
                script.append(("step", label, tuple(inp), tuple(out), kind == "plan"))
                if kind == "plan":
                    self.scripts[label] = None  # lazily generated
                    self.scripts[label + "#depth"] = depth + 1
        if rng.random() < 0.3:
            script.append(("amend_inp", rng.choice(self.files)))
        if rng.random() < 0.2:
            script.append(("amend_out", f"a_{self.nlabel}_{rng.randint(0, 2)}.txt"))
        if rng.random() < 0.2:
            script.insert(rng.randint(0, len(script)), ("hold",))
        return script

    async def run(self, nsteps):
        rng = self.rng
        with DBSession.open(":memory:") as db:
            wf = Workflow(db, dir_queue=None, defer_cap=3)
            await wf.initialize()
            sched = sch.Scheduler(wf, db=db)
            await sched.initialize(None)
            HOOK["fn"] = lambda: check(db, wf, self.log)
            HOOK["none"] = lambda: eligible_exists(db, wf)
            async with db:
                wf.declare_static_files(wf.root, ["plan.py"])
                wf.update_file_hashes({"plan.py": fake_hash("plan.py")}, cause=HashUpdateCause.CONFIRMED)
                wf.define_step(wf.root, "root", inp_paths=["plan.py"], need=Need.PLAN, _safe=True)
            self.scripts["root"] = self.gen_script(0)
            self.progress = {}  # step.i -> index in script, holding flag
            for _ in range(nsteps):
                acts = ["pop", "pop"]
                if self.running:
                    acts += ["advance"] * 4 + ["finish"] * 2
                acts += ["external"]
                act = rng.choice(acts)
                if act == "pop":
                    job = await sched.pop_next_job()
                    self.log.append(f"pop -> {job.name if job else None}")
                    if job is None:
                        continue
                    step = job.step
                    if job.step_hash is not None:
                        # checking: skip or mismatch
                        async with db:
                            if rng.random() < 0.5:
                                self.log.append(f"skip {step.label}")
                                step.mark_completed(H, False)
                            else:
                                self.log.append(f"noskip {step.label}")
                                step.reset_for_rerun()
                                step.delete_hash()
                                step.set_state(StepState.PENDING)
                        sched.record_job_completed(job)
                    else:
                        async with db:
                            step.reset_for_rerun()
                        self.running[step.i] = (job, step)
                        self.progress[step.i] = [0, False]
                        base = step.label
                        if self.scripts.get(base) is None:
                            self.scripts[base] = (
                                self.gen_script(self.scripts.get(base + "#depth", 3))
                                if base.startswith("plan")
                                else []
                            )
                        elif rng.random() < 0.2 and self.scripts[base]:
                            # mutate the script a bit (the script file was edited)
                            sc = list(self.scripts[base])
                            sc.pop(rng.randrange(len(sc)))
                            self.scripts[base] = sc
                elif act == "advance":
                    i = rng.choice(list(self.running))
                    job, step = self.running[i]
                    script = self.scripts[step.label]
                    idx, holding = self.progress[i][:2]
                    if idx >= len(script):
                        continue
                    a = script[idx]
                    self.progress[i][0] += 1
                    self.log.append(f"{step.label}: {a}")
                    try:
                        async with db:
                            if a[0] == "static":
                                tc = wf.declare_static_files(step, [a[1]])
                                wf.update_file_hashes(
                                    {p: fake_hash(p) for p in tc}, cause=HashUpdateCause.CONFIRMED
                                )
                            elif a[0] == "step":
                                _, label, inp, out, is_plan = a
                                wf.define_step(
                                    step,
                                    label,
                                    inp_paths=inp,
                                    out_paths=out,
                                    need=(Need.PLAN if is_plan else (Need.OPTIONAL if sum(label.encode()) % 3 == 0 else Need.DEFAULT)),
                                )
                            elif a[0] == "amend_inp":
                                una, unf, tc = wf.amend_step(
                                    step, inp_paths=[a[1]], ran_concurrently=lambda p, c: False
                                )
                                if una:
                                    self.progress[i].append("defer")
                                    self.progress[i][0] = len(script)
                            elif a[0] == "amend_out":
                                wf.amend_step(step, out_paths=[a[1]], ran_concurrently=lambda p, c: False)
                            elif a[0] == "hold":
                                if not holding:
                                    step.hold()
                                    self.progress[i][1] = True
                    except GraphError as exc:
                        self.log.append(f"   GraphError {exc}")
                        self.progress[i].append("fail")
                        self.progress[i][0] = len(script)
                elif act == "finish":
                    i = rng.choice(list(self.running))
                    job, step = self.running[i]
                    script = self.scripts[step.label]
                    idx, holding = self.progress[i][:2]
                    flags = self.progress[i][2:]
                    if idx < len(script) and rng.random() < 0.8:
                        continue
                    async with db:
                        if holding and step.is_holding():
                            step.release()
                        if "defer" in flags:
                            self.log.append(f"defer {step.label}")
                            step.mark_completed(None, True)
                        elif "fail" in flags or rng.random() < 0.1:
                            self.log.append(f"fail {step.label}")
                            step.mark_completed(None, False)
                        else:
                            self.log.append(f"succeed {step.label}")
                            outs = {
                                r.path: fake_hash(r.path)
                                for r in step.out_paths()
                                if r.state in (FileState.PLANNED, FileState.OUTDATED)
                                and rng.random() < 0.7
                            }
                            # unchanged OUTDATED outputs keep their hash; PLANNED must be written
                            for r in step.out_paths():
                                if r.state == FileState.PLANNED:
                                    outs[r.path] = fake_hash(r.path)
                            wf.update_file_hashes(outs, cause=HashUpdateCause.SUCCEEDED)
                            step.mark_completed(H, False)
                    sched.record_job_completed(job)
                    del self.running[i]
                    del self.progress[i]
                elif act == "external":
                    # a static file changes on disk
                    async with db:
                        rows = db.execute(
                            "SELECT label FROM node JOIN file ON file.node = node.i "
                            f"WHERE NOT detached AND file.state = {FileState.CONFIRMED.value}"
                        ).fetchall()
                        if rows and rng.random() < 0.3:
                            (path,) = rng.choice(rows)
                            fh = fake_hash(path)
                            import attrs

                            fh = attrs.evolve(fh, digest=bytes([rng.randrange(256)]) * 32)
                            self.log.append(f"external change {path}")
                            wf.update_file_hashes({path: fh}, cause=HashUpdateCause.EXTERNAL)


def main():
    start = int(sys.argv[1]) if len(sys.argv) > 1 else 0
    n = int(sys.argv[2]) if len(sys.argv) > 2 else 200
    found = {}
    for seed in range(start, start + n):
        sim = Sim(seed)
        try:
            asyncio.run(sim.run(300))
        except Mismatch as exc:
            key = str(exc).split(":")[0].split(" for ")[0]
            found.setdefault(key, []).append((seed, str(exc), len(sim.log)))
        except Exception as exc:  # noqa: BLE001
            key = f"{type(exc).__name__}: {str(exc)[:80]}"
            found.setdefault(key, []).append((seed, str(exc), len(sim.log)))
    for key, items in found.items():
        print(len(items), key)
        for seed, msg, nlog in items[:3]:
            print("    seed", seed, "log length", nlog, "::", msg[:300])


if __name__ == "__main__":
    main()
