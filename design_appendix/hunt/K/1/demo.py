#!/usr/bin/env python3
"""Lost wake-up: a runnable step is left PENDING for good (C10, also C02 and C19).

Run as:  cd /tmp/hunt_K && PYTHONPATH=/tmp/hunt_K /venv/bin/python _found/1/demo.py

A real `stepup build` is run three times in a temporary directory:

1. from scratch (everything succeeds, exit 0),
2. after editing `version.txt`, an input of `./gen.py` whose *output does not change*
   (early cut-off): `./gen.py` reruns, the nested planner `sub/plan.py` is hash-checked
   and SKIPPED, and the step `cp ../settings.txt copy.txt` (two plan levels below it,
   consuming the planner's own output) is never dispatched: exit status 16 (PENDING),
3. once more with nothing changed: the step is still stuck (exit 16).

The demo exits 1 when the defect is observed and 0 when it is not.
"""

import os
import sqlite3
import subprocess
import sys
import tempfile
from pathlib import Path

ROOT = "/tmp/hunt_K"

FILES = {
    "plan.py": """\
#!/usr/bin/env python3
from stepup.core.api import plan, static, step

static("gen.py", "version.txt", "sub/plan.py", "sub/deep/plan.py")
step("./gen.py", inp=["gen.py", "version.txt"], out="config.txt")
plan("./plan.py", workdir="sub/", inp="../config.txt", out="settings.txt")
""",
    "gen.py": """\
#!/usr/bin/env python3
# The output does not depend on the content of version.txt (early cut-off).
open("version.txt").read()
with open("config.txt", "w") as fh:
    fh.write("mode = fast\\n")
""",
    "version.txt": "1\n",
    "sub/plan.py": """\
#!/usr/bin/env python3
from stepup.core.api import plan

with open("settings.txt", "w") as fh:
    fh.write(open("../config.txt").read())
plan("./plan.py", workdir="deep/")
""",
    "sub/deep/plan.py": """\
#!/usr/bin/env python3
from stepup.core.api import step

step("cp ../settings.txt copy.txt", inp="../settings.txt", out="copy.txt")
""",
}


def build(workdir: Path, njob: int) -> tuple[int, str]:
    env = dict(os.environ)
    env["PATH"] = "/venv/bin:" + env.get("PATH", "")
    env["PYTHONPATH"] = ROOT
    for name in list(env):
        if name.startswith("STEPUP_"):
            del env[name]
    cp = subprocess.run(
        ["/venv/bin/stepup", "build", "-j", str(njob)],
        cwd=workdir,
        env=env,
        stdout=subprocess.PIPE,
        stderr=subprocess.STDOUT,
        text=True,
        timeout=300,
        check=False,
    )
    return cp.returncode, cp.stdout


def dump_steps(workdir: Path) -> list[tuple]:
    con = sqlite3.connect(workdir / ".stepup" / "graph.db")
    try:
        return con.execute(
            "SELECT node.label, step.state, step._safe, step._safe_ignoring_hold, "
            "step._check_safe, step._ready, step._has_hash, step.deferred, node.detached, "
            "(SELECT cstep.state FROM step AS cstep WHERE cstep.node = node.creator), "
            "(SELECT cstep._safe FROM step AS cstep WHERE cstep.node = node.creator) "
            "FROM step JOIN node ON node.i = step.node ORDER BY node.i"
        ).fetchall()
    finally:
        con.close()


def main() -> int:
    from stepup.core.enums import StepState

    with tempfile.TemporaryDirectory(prefix="hunt_K_1_") as tmp:
        workdir = Path(tmp)
        for name, content in FILES.items():
            path = workdir / name
            path.parent.mkdir(parents=True, exist_ok=True)
            path.write_text(content)
            if name.endswith(".py"):
                path.chmod(0o755)

        rc1, out1 = build(workdir, 1)
        print(f"build 1 (from scratch): exit status {rc1}")
        if rc1 != 0:
            print(out1)
            print("UNEXPECTED: the build from scratch did not succeed.")
            return 2

        (workdir / "version.txt").write_text("2\n")
        rc2, out2 = build(workdir, 1)
        print(f"build 2 (version.txt edited, config.txt comes out identical): exit status {rc2}")
        rc3, out3 = build(workdir, 1)
        print(f"build 3 (nothing changed): exit status {rc3}")

        print()
        print("step table after build 3:")
        stuck = []
        for (
            label,
            state,
            safe,
            safe_nh,
            check_safe,
            ready,
            has_hash,
            deferred,
            detached,
            cstate,
            csafe,
        ) in dump_steps(workdir):
            cdescr = (
                "creator=root"
                if cstate is None
                else f"creator: {StepState(cstate).name}, _safe={csafe}"
            )
            print(
                f"  {label:42s} {StepState(state).name:9s} _safe={safe} "
                f"_safe_ignoring_hold={safe_nh} _check_safe={check_safe} _ready={ready} "
                f"_has_hash={has_hash} deferred={deferred} detached={detached}  ({cdescr})"
            )
            if (
                state == StepState.PENDING.value
                and not detached
                and not deferred
                and ready
                and not safe
                and cstate == StepState.SUCCEEDED.value
                and csafe
            ):
                stuck.append(label)

        if rc2 == 0 and rc3 == 0:
            print("\nNo defect observed: both incremental builds succeeded.")
            return 0

        print()
        print("----- output of build 2 -----")
        print(out2)
        print("DEFECT: nothing in the sources is broken, every creator in the chain SUCCEEDED,")
        print("all inputs are available, yet the build ends with exit status", rc2, "(PENDING) and")
        print("stays that way after a restart (exit status", rc3, ").")
        for label in stuck:
            print(f"  stuck step: {label!r}: PENDING, _ready=1, not deferred, attached, creator")
            print("  SUCCEEDED with _safe=1, but its own cached _safe is 0 and _check_safe is 0,")
            print("  so SELECT_NEXT_STEP never returns it and nothing will ever recompute it.")
        return 1


if __name__ == "__main__":
    sys.exit(main())
