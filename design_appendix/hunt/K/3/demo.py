#!/usr/bin/env python3
"""A step that amends the output of a step it created: the build outcome depends on --jobs (C02).

Run as:  cd /tmp/hunt_K && PYTHONPATH=/tmp/hunt_K /venv/bin/python _found/3/demo.py

Part A builds, from scratch, a two-step project with `-j 1` and with `-j 2`:

    plan.py:  static("work.py"); step("./work.py", inp="work.py", out="f.txt"); amend(inp="f.txt")

* `-j 1`: exit status 16 (PENDING, "2 step(s) are waiting on each other"),
* `-j 2`: exit status 36 (FAILED | DRAINED): `./work.py` runs next to its creator, after which
  `plan.py` and `./work.py` chase each other until the defer cap fails `plan.py`
  (`--defer-cap 5` keeps this short; the default of 100 gives the same result).
  With a `time.sleep(1)` in front of the `amend()` call the same project exits 0 with `-j 2`.

Part B builds the repository's own example `tests/examples/cyclic_dynamic` (which `main.sh` only
ever runs with `-j 1`) from scratch with `-j 1`, `-j 2` and `-j 3`: exit status 16 (PENDING) with `-j 1`, and 0 (success)
or 36 (FAILED | DRAINED, through the defer cap) with more jobs, depending on timing.

The demo exits 1 when the exit statuses of one project differ between job counts.
"""

import os
import shutil
import subprocess
import sys
import tempfile
from pathlib import Path

ROOT = "/tmp/hunt_K"

FILES = {
    "plan.py": """\
#!/usr/bin/env python3
from stepup.core.api import amend, static, step

static("work.py")
step("./work.py", inp="work.py", out="f.txt")
amend(inp="f.txt")
print(open("f.txt").read())
""",
    "work.py": """\
#!/usr/bin/env python3
with open("f.txt", "w") as fh:
    fh.write("hello\\n")
""",
}


def build(workdir: Path, *args: str) -> tuple[int, str]:
    env = dict(os.environ)
    env["PATH"] = "/venv/bin:" + env.get("PATH", "")
    env["PYTHONPATH"] = ROOT
    for name in list(env):
        if name.startswith("STEPUP_"):
            del env[name]
    cp = subprocess.run(
        ["/venv/bin/stepup", "build", *args],
        cwd=workdir,
        env=env,
        stdout=subprocess.PIPE,
        stderr=subprocess.STDOUT,
        text=True,
        timeout=600,
        check=False,
    )
    return cp.returncode, cp.stdout


def summarize(out: str) -> str:
    """Keep the lines that tell the story; cut the middle out of a long livelock."""
    words = ("START", "SUCCESS", "FAIL ", "SKIP", "DEFERRED", "WARNING", "waiting on")
    lines = ["    " + line for line in out.splitlines() if any(word in line for word in words)]
    if len(lines) > 24:
        lines = [*lines[:12], f"    ... ({len(lines) - 20} similar lines left out)", *lines[-8:]]
    return "\n".join(lines)


def part_a() -> dict[int, int]:
    results = {}
    for njob in (1, 2):
        with tempfile.TemporaryDirectory(prefix=f"hunt_K_3a_j{njob}_") as tmp:
            workdir = Path(tmp)
            for name, content in FILES.items():
                path = workdir / name
                path.write_text(content)
                path.chmod(0o755)
            rc, out = build(workdir, "-j", str(njob), "--defer-cap", "5")
            results[njob] = rc
            print(f"[A] plan amends the output of its own step, -j {njob}: exit status {rc}")
            print(summarize(out))
    return results


def part_b() -> dict[int, int]:
    results = {}
    src = Path(ROOT) / "tests" / "examples" / "cyclic_dynamic"
    for njob in (1, 2, 3):
        with tempfile.TemporaryDirectory(prefix=f"hunt_K_3b_j{njob}_") as tmp:
            workdir = Path(tmp) / "cyclic_dynamic"
            workdir.mkdir()
            for name in ("plan.py", "work1.py", "work2.py"):
                shutil.copy(src / name, workdir / name)
            rc, out = build(workdir, "-j", str(njob), "--defer-cap", "5")
            results[njob] = rc
            print(f"[B] tests/examples/cyclic_dynamic, -j {njob}: exit status {rc}")
            print(summarize(out))
    return results


def main() -> int:
    res_a = part_a()
    res_b = part_b()
    print()
    print("exit statuses, part A:", res_a)
    print("exit statuses, part B:", res_b)
    if len(set(res_a.values())) > 1 or len(set(res_b.values())) > 1:
        print(
            "DEFECT: for the same sources, built from scratch, the class of the exit status "
            "(success / pending / failed) depends on the job count."
        )
        return 1
    print("No defect observed.")
    return 0


if __name__ == "__main__":
    sys.exit(main())
