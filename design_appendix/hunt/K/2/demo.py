#!/usr/bin/env python3
"""Whether an incremental build succeeds depends on --jobs (C02).

Run as:  cd /tmp/hunt_K && PYTHONPATH=/tmp/hunt_K /venv/bin/python _found/2/demo.py

Two identical copies of one project are built from scratch, receive the very same edit
(a `static("data.txt")` declaration moves from `a/plan.py` to `b.py`, and `src.txt` changes),
and are rebuilt, one with `-j 1` and one with `-j 2`.

* `-j 1`: `./gen.py` runs first, then `a/plan.py` reruns and drops its declaration,
  then `./b.py` declares the file: exit status 0.
* `-j 2`: `./b.py` runs next to `./gen.py`, while `a/plan.py` is still PENDING (it waits
  for the output of `./gen.py`). Its *stale* declaration of `data.txt` is still attached,
  so `./b.py` fails with "File (data.txt) cannot be declared static by both ...",
  a statement that is false for the sources on disk: exit status 36 (FAILED | DRAINED).

The demo exits 1 when the two exit statuses differ and 0 otherwise.
"""

import os
import subprocess
import sys
import tempfile
from pathlib import Path

ROOT = "/tmp/hunt_K"

FILES_V1 = {
    "plan.py": """\
#!/usr/bin/env python3
from stepup.core.api import plan, static, step

static("gen.py", "src.txt", "a/plan.py", "b.py")
step("./gen.py", inp=["gen.py", "src.txt"], out="cfg.txt")
plan("./plan.py", workdir="a/", inp="../cfg.txt")
step("./b.py", inp="b.py")
""",
    "gen.py": """\
#!/usr/bin/env python3
import time

time.sleep(1.0)
with open("cfg.txt", "w") as fh:
    fh.write(open("src.txt").read())
""",
    "src.txt": "1\n",
    "data.txt": "data\n",
    "a/plan.py": """\
#!/usr/bin/env python3
from stepup.core.api import static

static("../data.txt")
""",
    "b.py": """\
#!/usr/bin/env python3
from stepup.core.api import static
""",
}

# The edit: the declaration of data.txt moves from a/plan.py to b.py, and src.txt changes.
FILES_V2 = {
    "src.txt": "2\n",
    "a/plan.py": """\
#!/usr/bin/env python3
from stepup.core.api import static
""",
    "b.py": """\
#!/usr/bin/env python3
from stepup.core.api import static

static("data.txt")
""",
}


def write_files(workdir: Path, files: dict[str, str]):
    for name, content in files.items():
        path = workdir / name
        path.parent.mkdir(parents=True, exist_ok=True)
        path.write_text(content)
        if name.endswith(".py"):
            path.chmod(0o755)


def build(workdir: Path, njob: int) -> tuple[int, str]:
    env = dict(os.environ)
    env["PATH"] = "/venv/bin:" + env.get("PATH", "")
    env["PYTHONPATH"] = ROOT
    for name in list(env):
        if name.startswith("STEPUP_"):
            del env[name]
    cp = subprocess.run(
        ["/venv/bin/stepup", "build", "-j", str(njob)],
        cwd=workdir,
        env=env,
        stdout=subprocess.PIPE,
        stderr=subprocess.STDOUT,
        text=True,
        timeout=300,
        check=False,
    )
    return cp.returncode, cp.stdout


def scenario(njob: int) -> tuple[int, str]:
    with tempfile.TemporaryDirectory(prefix=f"hunt_K_2_j{njob}_") as tmp:
        workdir = Path(tmp)
        write_files(workdir, FILES_V1)
        rc, out = build(workdir, njob)
        if rc != 0:
            print(out)
            raise RuntimeError(f"The build from scratch with -j {njob} did not succeed: {rc}")
        write_files(workdir, FILES_V2)
        return build(workdir, njob)


def main() -> int:
    results = {}
    for njob in (1, 2):
        rc, out = scenario(njob)
        results[njob] = rc
        print(f"===== incremental build with -j {njob}: exit status {rc} =====")
        print(out)
    # A build from scratch of the edited sources, as the reference.
    with tempfile.TemporaryDirectory(prefix="hunt_K_2_scratch_") as tmp:
        workdir = Path(tmp)
        write_files(workdir, FILES_V1)
        write_files(workdir, FILES_V2)
        rc_scratch, _ = build(workdir, 2)
    print(f"exit status from scratch (edited sources, -j 2): {rc_scratch}")
    print(f"exit status incremental -j 1: {results[1]}")
    print(f"exit status incremental -j 2: {results[2]}")
    if results[1] != results[2]:
        print(
            "DEFECT: same sources, same database, same edit: whether the build succeeds depends "
            "on the job count."
        )
        return 1
    print("No defect observed.")
    return 0


if __name__ == "__main__":
    sys.exit(main())
