#!/usr/bin/env python3
"""C07: an orphaned output survives cleanup when it is an input of a dropped plan step
that sits on a creator/dependency cycle (a plan that declares its own helper module static).

Run as: cd /tmp/hunt_D && PYTHONPATH=/tmp/hunt_D /venv/bin/python _found/1/demo.py

Only real `stepup build` invocations are used:
  build 1 : top-level plan generates names.txt and runs sub/plan.py with names.txt as input;
            sub/plan.py does `static("helper.py")` + `import helper` (auto-amended as input).
  edit    : the user drops the generator step and the sub-plan from plan.py.
  build 2 : successful, unrestricted, cleaning enabled.
  build 3 : once more, nothing changed.
Exits 1 when names.txt (an unmodified output of a step the workflow no longer defines,
not used by any active step) is still on disk and in the graph.
"""

import os
import shutil
import sqlite3
import subprocess
import sys
import tempfile

ROOT = os.environ.get("HUNT_D_STEPUP", "/tmp/hunt_D")  # where the `stepup` package under test lives
ENV = dict(os.environ)
ENV["PATH"] = "/venv/bin:" + ENV.get("PATH", "")
ENV["PYTHONPATH"] = ROOT
ENV["COLUMNS"] = "100"
for name in list(ENV):
    if name.startswith("STEPUP_"):
        del ENV[name]

PLAN1 = """\
#!/usr/bin/env python3
from stepup.core.api import plan, run, static

static("sub/plan.py")
run("echo a b c > names.txt", shell=True, out="names.txt")
plan("./plan.py", workdir="sub", inp="../names.txt")
"""

PLAN2 = """\
#!/usr/bin/env python3
from stepup.core.api import static

static("sub/plan.py")
"""

SUB_PLAN = """\
#!/usr/bin/env python3
from stepup.core.api import run, static
import helper

static("helper.py")
for name in open("../names.txt").read().split():
    run(f"echo {name}{helper.SUFFIX} > {name}.txt", shell=True, out=f"{name}.txt")
"""

HELPER = """\
SUFFIX = "!"
"""


def write(path, text, mode=0o644):
    os.makedirs(os.path.dirname(path) or ".", exist_ok=True)
    with open(path, "w") as fh:
        fh.write(text)
    os.chmod(path, mode)


def build(workdir):
    proc = subprocess.run(
        ["stepup", "build", "-j", "2", "--no-progress"],
        cwd=workdir,
        env=ENV,
        stdin=subprocess.DEVNULL,
        stdout=subprocess.PIPE,
        stderr=subprocess.STDOUT,
        text=True,
        timeout=120,
    )
    return proc.returncode, proc.stdout


def files_on_disk(workdir):
    result = []
    for dirpath, dirnames, filenames in os.walk(workdir):
        if ".stepup" in dirnames:
            dirnames.remove(".stepup")
        for filename in filenames:
            result.append(os.path.relpath(os.path.join(dirpath, filename), workdir))
    return sorted(result)


def dump_nodes(workdir):
    con = sqlite3.connect(os.path.join(workdir, ".stepup", "graph.db"))
    try:
        sql = (
            "SELECT node.kind, node.label, node.detached, file.state FROM node "
            "LEFT JOIN file ON file.node = node.i ORDER BY node.i"
        )
        return list(con.execute(sql))
    finally:
        con.close()


def control():
    """The same history without the helper module: names.txt is removed, as it should be."""
    tmp = tempfile.mkdtemp(prefix="hunt_D_1c_")
    try:
        write(os.path.join(tmp, "plan.py"), PLAN1, 0o755)
        sub_plan = SUB_PLAN.replace("import helper\n", "").replace('static("helper.py")\n', "")
        sub_plan = sub_plan.replace("{helper.SUFFIX}", "!")
        write(os.path.join(tmp, "sub/plan.py"), sub_plan, 0o755)
        rc1, _ = build(tmp)
        write(os.path.join(tmp, "plan.py"), PLAN2, 0o755)
        rc2, _ = build(tmp)
        print(f"control (no helper module): rc={rc1},{rc2} files after build 2={files_on_disk(tmp)}")
        return rc1 == 0 and rc2 == 0 and files_on_disk(tmp) == ["plan.py", "sub/plan.py"]
    finally:
        shutil.rmtree(tmp, ignore_errors=True)


def main():
    from stepup.core.enums import FileState

    if not control():
        print("UNEXPECTED: the control history does not clean up either")
        return 2
    tmp = tempfile.mkdtemp(prefix="hunt_D_1_")
    try:
        write(os.path.join(tmp, "plan.py"), PLAN1, 0o755)
        write(os.path.join(tmp, "sub/plan.py"), SUB_PLAN, 0o755)
        write(os.path.join(tmp, "sub/helper.py"), HELPER)
        sources = {"plan.py", "sub/plan.py", "sub/helper.py"}

        rc1, out1 = build(tmp)
        print(f"build 1: rc={rc1} files={files_on_disk(tmp)}")
        if rc1 != 0 or "names.txt" not in files_on_disk(tmp):
            print("UNEXPECTED: build 1 failed")
            print(out1)
            return 2

        # The user drops the generator and the sub-plan.
        write(os.path.join(tmp, "plan.py"), PLAN2, 0o755)
        rc2, out2 = build(tmp)
        print(f"build 2: rc={rc2} files={files_on_disk(tmp)}")
        print(out2)
        rc3, out3 = build(tmp)
        print(f"build 3: rc={rc3} files={files_on_disk(tmp)}")
        if rc2 != 0 or rc3 != 0:
            print("UNEXPECTED: build 2 or 3 failed")
            print(out3)
            return 2

        print("nodes left in the graph after build 3:")
        for kind, label, detached, state in dump_nodes(tmp):
            state_name = "" if state is None else FileState(state).name
            key = f"({kind}:{label})" if detached else f"{kind}:{label}"
            print(f"    {key:45s} {state_name}")

        leftovers = sorted(set(files_on_disk(tmp)) - sources)
        if leftovers:
            print(
                "DEFECT (C07): after a successful, unrestricted build with cleaning enabled, "
                f"orphaned outputs are still on disk: {leftovers}"
            )
            print("The final plan.py defines no step at all, so nothing can be using them.")
            return 1
        print("no leftovers")
        return 0
    finally:
        shutil.rmtree(tmp, ignore_errors=True)


if __name__ == "__main__":
    sys.exit(main())
