#!/usr/bin/env python3
"""C05: a kill during the cleanup at the end of a build orphans outputs for good.

Run as: cd /tmp/hunt_D && PYTHONPATH=/tmp/hunt_D /venv/bin/python _found/3/demo.py

Only real `stepup build` invocations are used (no internals are touched):
  build 1   : one step writes N outputs into out/.
  edit      : the user drops that step from plan.py.
  build 2   : killed with SIGKILL (TUI + director) as soon as the first orphaned output
              has disappeared from disk, i.e. after the `delete_detached` transaction was
              committed and while `remove_deletable_files` works through its in-memory list.
  build 3,4 : plain restarts in the same directory, nothing changed.
  reference : the same history in a fresh directory without the kill.
Exits 1 when files are left behind that the uninterrupted history removed.
"""

import os
import shutil
import signal
import sqlite3
import subprocess
import sys
import tempfile
import time

ROOT = os.environ.get("HUNT_D_STEPUP", "/tmp/hunt_D")  # where the `stepup` package under test lives
N = 3000
ENV = dict(os.environ)
ENV["PATH"] = "/venv/bin:" + ENV.get("PATH", "")
ENV["PYTHONPATH"] = ROOT
ENV["COLUMNS"] = "100"
for name in list(ENV):
    if name.startswith("STEPUP_"):
        del ENV[name]

PLAN1 = f"""\
#!/usr/bin/env python3
from stepup.core.api import run, static

static("gen.py")
run("./gen.py", out=[f"out/f{{i:05d}}.txt" for i in range({N})])
"""

PLAN2 = """\
#!/usr/bin/env python3
from stepup.core.api import static

static("gen.py")
"""

GEN = f"""\
#!/usr/bin/env python3
for i in range({N}):
    with open(f"out/f{{i:05d}}.txt", "w") as fh:
        fh.write(f"{{i}}\\n")
"""


def write(path, text, mode=0o755):
    with open(path, "w") as fh:
        fh.write(text)
    os.chmod(path, mode)


def build(workdir):
    proc = subprocess.run(
        ["stepup", "build", "-j", "1", "--no-progress"],
        cwd=workdir,
        env=ENV,
        stdin=subprocess.DEVNULL,
        stdout=subprocess.PIPE,
        stderr=subprocess.STDOUT,
        text=True,
        timeout=300,
    )
    return proc.returncode, proc.stdout


def become_subreaper():
    """Make orphaned descendants children of this process, so they can be reaped."""
    import ctypes

    libc = ctypes.CDLL(None, use_errno=True)
    libc.prctl(36, 1, 0, 0, 0)  # PR_SET_CHILD_SUBREAPER


def kill_session(proc):
    try:
        os.killpg(proc.pid, signal.SIGKILL)
    except OSError:
        pass
    proc.wait()
    # Reap the re-parented director, so its pid does not linger as a zombie
    # (the next `stepup build` refuses to start while that pid "still exists").
    while True:
        try:
            os.waitpid(-1, 0)
        except ChildProcessError:
            break


def leftovers(workdir):
    outdir = os.path.join(workdir, "out")
    return sorted(os.listdir(outdir)) if os.path.isdir(outdir) else None


def graph_labels(workdir):
    con = sqlite3.connect(os.path.join(workdir, ".stepup", "graph.db"))
    try:
        return [row[0] for row in con.execute("SELECT label FROM node WHERE kind = 'file'")]
    finally:
        con.close()


def main():
    become_subreaper()
    tmp = tempfile.mkdtemp(prefix="hunt_D_3_")
    try:
        # Reference history, never interrupted.
        ref = os.path.join(tmp, "ref")
        os.mkdir(ref)
        write(os.path.join(ref, "plan.py"), PLAN1)
        write(os.path.join(ref, "gen.py"), GEN)
        rc, out = build(ref)
        assert rc == 0 and len(leftovers(ref)) == N, out
        write(os.path.join(ref, "plan.py"), PLAN2)
        rc, out = build(ref)
        print(f"reference: build 2 rc={rc}, out/ afterwards: {leftovers(ref)}")
        if rc != 0 or leftovers(ref) is not None:
            print("UNEXPECTED: the reference history does not clean up")
            print(out[-3000:])
            return 2

        # The same history, with build 2 killed during its cleanup.
        wd = os.path.join(tmp, "crash")
        os.mkdir(wd)
        write(os.path.join(wd, "plan.py"), PLAN1)
        write(os.path.join(wd, "gen.py"), GEN)
        rc, out = build(wd)
        assert rc == 0 and len(leftovers(wd)) == N, out
        write(os.path.join(wd, "plan.py"), PLAN2)
        proc = subprocess.Popen(
            ["stepup", "build", "-j", "1", "--no-progress"],
            cwd=wd,
            env=ENV,
            stdin=subprocess.DEVNULL,
            stdout=subprocess.DEVNULL,
            stderr=subprocess.DEVNULL,
            start_new_session=True,
        )
        # Files are removed in reverse order, so the last one goes first.
        first_victim = os.path.join(wd, "out", f"f{N - 1:05d}.txt")
        deadline = time.time() + 120
        while os.path.exists(first_victim):
            if time.time() > deadline or proc.poll() is not None:
                kill_session(proc)
                print("UNEXPECTED: build 2 never started to remove files")
                return 2
            time.sleep(0.001)
        kill_session(proc)
        nleft = len(leftovers(wd) or [])
        print(f"build 2 killed (SIGKILL) during its cleanup: {nleft} of {N} outputs still on disk")
        if nleft == 0:
            print("INCONCLUSIVE: the cleanup finished before the kill arrived; increase N")
            return 2

        for i in (3, 4):
            rc, out = build(wd)
            left = leftovers(wd) or []
            print(f"build {i} (plain restart): rc={rc}, {len(left)} orphaned outputs still on disk")
        print(out)
        known = [label for label in graph_labels(wd) if label.startswith("out/")]
        print(f"file nodes under out/ in the graph: {len(known)}")

        left = leftovers(wd) or []
        if left:
            print(
                f"DEFECT (C05): {len(left)} files (e.g. out/{left[0]}) are left behind that the "
                "uninterrupted history removed. No node in the graph remembers them, "
                "so neither a later build nor `stepup clean` will ever remove them."
            )
            return 1
        print("no leftovers")
        return 0
    finally:
        shutil.rmtree(tmp, ignore_errors=True)


if __name__ == "__main__":
    sys.exit(main())
