#!/usr/bin/env python3
"""C05: a step that was RUNNING *and detached* when StepUp was killed stays FAILED after restart.

Run as: cd /tmp/hunt_D && PYTHONPATH=/tmp/hunt_D /venv/bin/python _found/2/demo.py

Only real `stepup build` invocations are used (no internals are touched):
  session 1 : `stepup build -j 4`, killed with SIGKILL (director, TUI and all steps)
              at the moment mid.py (a nested plan) starts its second (post-defer) run;
  session 2 : `stepup build -j 4` in the same directory, nothing else changed;
  reference : the same project built once in a fresh directory without any kill.
Exits 1 when session 2 does not reproduce the reference (which is the defect).
"""

import os
import shutil
import signal
import subprocess
import sys
import tempfile
import time

ROOT = os.environ.get("HUNT_D_STEPUP", "/tmp/hunt_D")  # where the `stepup` package under test lives
ENV = dict(os.environ)
ENV["PATH"] = "/venv/bin:" + ENV.get("PATH", "")
ENV["PYTHONPATH"] = ROOT
ENV["COLUMNS"] = "100"
for name in list(ENV):
    if name.startswith("STEPUP_"):
        del ENV[name]

PLAN = """\
#!/usr/bin/env python3
from stepup.core.api import plan, static

static("mid.py", "sub.py", "work.py", "gen.py")
plan("./mid.py")                     # A: a nested plan that reads a generated list
"""

MID = """\
#!/usr/bin/env python3
import os
import time

from stepup.core.api import amend, plan, run

if os.path.exists("BLOCK") and os.path.exists("list.txt"):
    # Schedule control for the demo only: this is the second run of mid.py in session 1
    # (after it was deferred). Tell the demo where we are and wait to be killed.
    with open("second_run.txt", "w") as fh:
        fh.write(str(os.getpid()))
    time.sleep(600)

plan("./sub.py")                     # B: a nested planning step, defines ./work.py (C)
run("./gen.py", out="list.txt")      # G: generates the list that this plan reads below
# A slow plan: it is still busy while B and C are already started.
while not os.path.exists("c_started.txt"):
    time.sleep(0.1)
amend(inp="list.txt")                # not available (or not fresh) on the first run -> DEFERRED
for name in open("list.txt").read().split():
    run(f"echo {name} > {name}.txt", shell=True, out=f"{name}.txt")
"""

SUB = """\
#!/usr/bin/env python3
from stepup.core.api import run

run("./work.py", out="work_out.txt")
"""

WORK = """\
#!/usr/bin/env python3
import os
import time

with open("c_started.txt", "w") as fh:
    fh.write(str(os.getpid()))
while not os.path.exists("release.txt"):
    time.sleep(0.1)
with open("work_out.txt", "w") as fh:
    fh.write("done\\n")
"""

GEN = """\
#!/usr/bin/env python3
import os
import time

while not os.path.exists("c_started.txt"):
    time.sleep(0.1)
with open("list.txt", "w") as fh:
    fh.write("a b\\n")
"""


def write_project(workdir):
    for name, text in ("plan.py", PLAN), ("mid.py", MID), ("sub.py", SUB), ("work.py", WORK), ("gen.py", GEN):
        path = os.path.join(workdir, name)
        with open(path, "w") as fh:
            fh.write(text)
        os.chmod(path, 0o755)


def build(workdir, timeout=120):
    proc = subprocess.run(
        ["stepup", "build", "-j", "4", "--no-progress"],
        cwd=workdir,
        env=ENV,
        stdin=subprocess.DEVNULL,
        stdout=subprocess.PIPE,
        stderr=subprocess.STDOUT,
        text=True,
        timeout=timeout,
    )
    return proc.returncode, proc.stdout


def kill_everything_in(workdir, proc):
    """SIGKILL the TUI + director (one process group) and every step (own sessions)."""
    with contextlib_suppress():
        os.killpg(proc.pid, signal.SIGKILL)
    real = os.path.realpath(workdir)
    for pid in os.listdir("/proc"):
        if not pid.isdigit() or int(pid) == os.getpid():
            continue
        try:
            cwd = os.path.realpath(os.readlink(f"/proc/{pid}/cwd"))
        except OSError:
            continue
        if cwd == real or cwd.startswith(real + os.sep):
            with contextlib_suppress():
                os.kill(int(pid), signal.SIGKILL)
    proc.wait()
    # The director was a child of the (killed) TUI, so it is re-parented to this process
    # (see `become_subreaper`) and must be reaped here. Otherwise its pid lingers as a zombie,
    # and the next `stepup build` refuses to start because the pid "still exists".
    while True:
        try:
            os.waitpid(-1, 0)
        except ChildProcessError:
            break


def become_subreaper():
    """Make orphaned descendants children of this process, so they can be reaped."""
    import ctypes

    libc = ctypes.CDLL(None, use_errno=True)
    pr_set_child_subreaper = 36
    libc.prctl(pr_set_child_subreaper, 1, 0, 0, 0)


class contextlib_suppress:
    def __enter__(self):
        return self

    def __exit__(self, exc_type, exc, tb):
        return exc_type is not None and issubclass(exc_type, OSError)


def step_states(workdir):
    import sqlite3

    con = sqlite3.connect(os.path.join(workdir, ".stepup", "graph.db"))
    try:
        sql = (
            "SELECT label, state, detached FROM node JOIN step ON node.i = step.node ORDER BY label"
        )
        return list(con.execute(sql))
    finally:
        con.close()


def outputs(workdir):
    return sorted(
        name
        for name in os.listdir(workdir)
        if name.endswith(".txt") and name not in ("c_started.txt", "second_run.txt", "release.txt")
    )


def main():
    from stepup.core.enums import StepState

    become_subreaper()
    tmp = tempfile.mkdtemp(prefix="hunt_D_2_")
    try:
        # Reference: never interrupted.
        ref = os.path.join(tmp, "ref")
        os.mkdir(ref)
        write_project(ref)
        open(os.path.join(ref, "release.txt"), "w").close()
        rc_ref, out_ref = build(ref)
        ref_outputs = outputs(ref)
        ref_states = [(label, StepState(s).name, bool(d)) for label, s, d in step_states(ref)]
        print(f"reference build: rc={rc_ref} outputs={ref_outputs}")
        if rc_ref != 0 or "work_out.txt" not in ref_outputs:
            print("UNEXPECTED: the reference build itself did not succeed")
            print(out_ref)
            return 2

        # Session 1: killed while mid.py reruns (after its defer) and ./work.py still runs.
        wd = os.path.join(tmp, "crash")
        os.mkdir(wd)
        write_project(wd)
        open(os.path.join(wd, "BLOCK"), "w").close()
        proc = subprocess.Popen(
            ["stepup", "build", "-j", "4", "--no-progress"],
            cwd=wd,
            env=ENV,
            stdin=subprocess.DEVNULL,
            stdout=subprocess.PIPE,
            stderr=subprocess.STDOUT,
            text=True,
            start_new_session=True,
        )
        deadline = time.time() + 90
        marker = os.path.join(wd, "second_run.txt")
        while not os.path.exists(marker):
            if time.time() > deadline or proc.poll() is not None:
                kill_everything_in(wd, proc)
                print("UNEXPECTED: session 1 never reached the second run of mid.py")
                print(proc.stdout.read())
                return 2
            time.sleep(0.05)
        time.sleep(0.3)
        kill_everything_in(wd, proc)
        print("session 1 killed (SIGKILL) while mid.py was rerunning; step states in the database:")
        for label, s, d in step_states(wd):
            print(f"    {StepState(s).name:10s} detached={bool(d)!s:5s} {label}")

        # Session 2: plain restart. Nothing changed, except that the demo's scheduling aids
        # no longer block anything (work.py can finish at once, plan.py does not wait).
        os.remove(os.path.join(wd, "BLOCK"))
        open(os.path.join(wd, "release.txt"), "w").close()
        rc2, out2 = build(wd)
        got_outputs = outputs(wd)
        got_states = [(label, StepState(s).name, bool(d)) for label, s, d in step_states(wd)]
        print(f"restarted build: rc={rc2} outputs={got_outputs}")
        print("---- output of the restarted build ----")
        print(out2)
        print("---- step states after the restarted build ----")
        for label, s, d in got_states:
            print(f"    {s:10s} detached={d!s:5s} {label}")

        problems = []
        if rc2 != rc_ref:
            problems.append(f"return code {rc2} instead of {rc_ref}")
        if got_outputs != ref_outputs:
            problems.append(f"outputs {got_outputs} instead of {ref_outputs}")
        if got_states != ref_states:
            diff = sorted(set(got_states) ^ set(ref_states))
            problems.append(f"step states differ from the reference: {diff}")
        if problems:
            print("DEFECT (C05): the build after the kill is not the build that was never killed:")
            for problem in problems:
                print("  -", problem)
            return 1
        print("no difference found")
        return 0
    finally:
        shutil.rmtree(tmp, ignore_errors=True)


if __name__ == "__main__":
    sys.exit(main())
