#!/usr/bin/env python3
"""C05: after a kill, the startup rescan skips files that the kill left detached,
so an edited source is recycled as unchanged and a stale output is kept as up to date.

Run as: cd /tmp/hunt_D && PYTHONPATH=/tmp/hunt_D /venv/bin/python _found/4/demo.py

Only real `stepup build` invocations are used (no internals are touched). User history:
  build 1 : plan.py runs sub/plan.py, which declares static x.txt and copies it to y.txt.
  edit    : the user adds a comment to plan.py.
  build 2 : plan.py reruns.
            crash variant: TUI, director and steps get SIGKILL while plan.py is starting up;
            reference    : build 2 simply completes.
  edit    : the user changes sub/x.txt (StepUp is not running).
  build 3 : plain `stepup build`.
Exits 1 when sub/y.txt of the crash variant differs from the reference.
"""

import os
import shutil
import signal
import sqlite3
import subprocess
import sys
import tempfile
import time

ROOT = os.environ.get("HUNT_D_STEPUP", "/tmp/hunt_D")  # where the `stepup` package under test lives
ENV = dict(os.environ)
ENV["PATH"] = "/venv/bin:" + ENV.get("PATH", "")
ENV["PYTHONPATH"] = ROOT
ENV["COLUMNS"] = "100"
for name in list(ENV):
    if name.startswith("STEPUP_"):
        del ENV[name]

PLAN = """\
#!/usr/bin/env python3
import os
import time

from stepup.core.api import plan, static

if os.path.exists("BLOCK"):
    # Schedule control for the demo only: tell the demo that plan.py is (re)running,
    # and wait to be killed.
    with open("blocked.txt", "w") as fh:
        fh.write(str(os.getpid()))
    time.sleep(600)

static("sub/plan.py")
plan("./plan.py", workdir="sub")
"""

SUB_PLAN = """\
#!/usr/bin/env python3
from stepup.core.api import run, static

static("x.txt")
run("cp x.txt y.txt", inp="x.txt", out="y.txt")
"""


def write(path, text, mode=0o644):
    os.makedirs(os.path.dirname(path) or ".", exist_ok=True)
    with open(path, "w") as fh:
        fh.write(text)
    os.chmod(path, mode)


def read(path):
    with open(path) as fh:
        return fh.read()


def build(workdir):
    proc = subprocess.run(
        ["stepup", "build", "-j", "2", "--no-progress"],
        cwd=workdir,
        env=ENV,
        stdin=subprocess.DEVNULL,
        stdout=subprocess.PIPE,
        stderr=subprocess.STDOUT,
        text=True,
        timeout=120,
    )
    return proc.returncode, proc.stdout


def become_subreaper():
    """Make orphaned descendants children of this process, so they can be reaped."""
    import ctypes

    libc = ctypes.CDLL(None, use_errno=True)
    libc.prctl(36, 1, 0, 0, 0)  # PR_SET_CHILD_SUBREAPER


def kill_everything_in(workdir, proc):
    """SIGKILL the TUI + director (one process group) and every step (own sessions)."""
    try:
        os.killpg(proc.pid, signal.SIGKILL)
    except OSError:
        pass
    real = os.path.realpath(workdir)
    for pid in os.listdir("/proc"):
        if not pid.isdigit() or int(pid) == os.getpid():
            continue
        try:
            cwd = os.path.realpath(os.readlink(f"/proc/{pid}/cwd"))
            if cwd == real or cwd.startswith(real + os.sep):
                os.kill(int(pid), signal.SIGKILL)
        except OSError:
            continue
    proc.wait()
    # Reap the re-parented director, so its pid does not linger as a zombie
    # (the next `stepup build` refuses to start while that pid "still exists").
    while True:
        try:
            os.waitpid(-1, 0)
        except ChildProcessError:
            break


def dump(workdir):
    con = sqlite3.connect(os.path.join(workdir, ".stepup", "graph.db"))
    try:
        sql = (
            "SELECT node.kind, node.label, node.detached, file.state, step.state FROM node "
            "LEFT JOIN file ON file.node = node.i LEFT JOIN step ON step.node = node.i "
            "ORDER BY node.i"
        )
        return list(con.execute(sql))
    finally:
        con.close()


def print_dump(workdir):
    from stepup.core.enums import FileState, StepState

    for kind, label, detached, fstate, sstate in dump(workdir):
        key = f"({kind}:{label})" if detached else f"{kind}:{label}"
        state = ""
        if fstate is not None:
            state = FileState(fstate).name
        if sstate is not None:
            state = StepState(sstate).name
        print(f"    {key:40s} {state}")


def history(workdir, kill):
    write(os.path.join(workdir, "plan.py"), PLAN, 0o755)
    write(os.path.join(workdir, "sub/plan.py"), SUB_PLAN, 0o755)
    write(os.path.join(workdir, "sub/x.txt"), "one\n")
    rc, out = build(workdir)
    assert rc == 0 and read(os.path.join(workdir, "sub/y.txt")) == "one\n", out

    # The user edits plan.py (a comment), which makes it run again in build 2.
    write(os.path.join(workdir, "plan.py"), PLAN + "# A comment.\n", 0o755)
    if kill:
        open(os.path.join(workdir, "BLOCK"), "w").close()
        proc = subprocess.Popen(
            ["stepup", "build", "-j", "2", "--no-progress"],
            cwd=workdir,
            env=ENV,
            stdin=subprocess.DEVNULL,
            stdout=subprocess.DEVNULL,
            stderr=subprocess.DEVNULL,
            start_new_session=True,
        )
        marker = os.path.join(workdir, "blocked.txt")
        deadline = time.time() + 90
        while not os.path.exists(marker):
            if time.time() > deadline or proc.poll() is not None:
                kill_everything_in(workdir, proc)
                raise RuntimeError("build 2 never reached plan.py")
            time.sleep(0.05)
        time.sleep(0.2)
        kill_everything_in(workdir, proc)
        os.remove(os.path.join(workdir, "BLOCK"))
        os.remove(marker)
        print("build 2 killed (SIGKILL) while plan.py was starting up; graph in the database:")
        print_dump(workdir)
    else:
        rc, out = build(workdir)
        assert rc == 0, out

    # The user edits a source file while StepUp is not running.
    write(os.path.join(workdir, "sub/x.txt"), "two\n")
    rc, out = build(workdir)
    return rc, out, read(os.path.join(workdir, "sub/y.txt"))


def main():
    become_subreaper()
    tmp = tempfile.mkdtemp(prefix="hunt_D_4_")
    try:
        ref = os.path.join(tmp, "ref")
        os.mkdir(ref)
        rc_ref, out_ref, y_ref = history(ref, kill=False)
        print(f"reference : build 3 rc={rc_ref}, sub/x.txt='two', sub/y.txt={y_ref.strip()!r}")
        if rc_ref != 0 or y_ref != "two\n":
            print("UNEXPECTED: the reference history does not rebuild y.txt")
            print(out_ref)
            return 2

        wd = os.path.join(tmp, "crash")
        os.mkdir(wd)
        rc, out, y = history(wd, kill=True)
        print(f"after kill: build 3 rc={rc}, sub/x.txt='two', sub/y.txt={y.strip()!r}")
        print("---- output of build 3 after the kill ----")
        print(out)
        print("---- graph after build 3 ----")
        print_dump(wd)
        if rc != rc_ref or y != y_ref:
            print(
                "DEFECT (C05): the restarted build reports success but sub/y.txt is stale: "
                f"{y.strip()!r} instead of {y_ref.strip()!r}. The change of sub/x.txt was never "
                "noticed, `cp x.txt y.txt` was not run again."
            )
            return 1
        print("no difference found")
        return 0
    finally:
        shutil.rmtree(tmp, ignore_errors=True)


if __name__ == "__main__":
    sys.exit(main())
