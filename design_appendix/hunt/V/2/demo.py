#!/usr/bin/env python3
"""Same cause as _found/1, worse consequence: the amended input of a step that is declared again
while its outputs are hashed is lost, the step is SUCCEEDED, and a later edit of that input
is never noticed (stale output after a successful build).

Run as: cd /tmp/hunt_V && PYTHONPATH=/tmp/hunt_V /venv/bin/python _found/2/demo.py

A real `stepup build -j 4` in a temporary directory, nothing is patched.
Exit code 1 when the defect shows, 0 when it does not.
"""

import os
import shutil
import sqlite3
import subprocess
import sys
import tempfile
import time

ROOT = "/tmp/hunt_V"
sys.path.insert(0, ROOT)

from stepup.core.hash import FileHash  # noqa: E402

PLAN = """\
#!/usr/bin/env python3
from stepup.core.api import static, step

static("gen.py", "p.py", "work.py", "extra.txt")
step("./gen.py", inp="gen.py", out="cfg.txt")
step("./p.py", inp="p.py")
"""

GEN = """\
#!/usr/bin/env python3
import time
time.sleep(3.0)
with open("cfg.txt", "w") as fh:
    fh.write("config\\n")
"""

# Second run (when cfg.txt is built) declares ./work.py with one more input.
P = """\
#!/usr/bin/env python3
import os
import time
from stepup.core.api import amend, step

if os.path.exists("cfg.txt"):
    step("./work.py", inp=["work.py", "cfg.txt"], out=["big.bin"])
else:
    step("./work.py", inp=["work.py"], out=["big.bin"])
    time.sleep(1.0)
amend(inp="cfg.txt")
"""

# Amends extra.txt as input and copies it to the start of a big (sparse) output.
WORK = """\
#!/usr/bin/env python3
import os
import time
from stepup.core.api import amend
with open("work.log", "a") as fh:
    fh.write("start\\n")
amend(inp="extra.txt")
time.sleep(1.5)
with open("extra.txt", "rb") as fh:
    data = fh.read()
with open("big.bin", "wb") as fh:
    fh.write(data)
    fh.truncate(int(os.environ["BIG_SIZE"]))
"""


def calibrate(tmp: str) -> int:
    """Return a file size whose hash takes about 8 seconds on this machine right now."""
    path = os.path.join(tmp, "calib.bin")
    size = 100_000_000
    with open(path, "wb") as fh:
        fh.truncate(size)
    start = time.perf_counter()
    FileHash.unknown().refreshed(path)
    elapsed = max(time.perf_counter() - start, 1e-3)
    os.remove(path)
    return int(min(max(size * 8.0 / elapsed, 300_000_000), 20_000_000_000))


def build(tmp, env):
    proc = subprocess.run(
        ["stepup", "build", "-j", "4", "--no-progress"],
        cwd=tmp, env=env, capture_output=True, text=True, timeout=600, check=False,
    )
    print(proc.stdout)
    print(proc.stderr)
    return proc.returncode


def main() -> int:
    os.makedirs(os.path.join(ROOT, "_scratch"), exist_ok=True)
    tmp = tempfile.mkdtemp(prefix="found2_", dir=os.path.join(ROOT, "_scratch"))
    try:
        for name, text in [("plan.py", PLAN), ("gen.py", GEN), ("p.py", P), ("work.py", WORK)]:
            path = os.path.join(tmp, name)
            with open(path, "w") as fh:
                fh.write(text)
            os.chmod(path, 0o755)
        with open(os.path.join(tmp, "extra.txt"), "w") as fh:
            fh.write("v1\n")
        env = dict(os.environ)
        env["PATH"] = "/venv/bin:" + env["PATH"]
        env["PYTHONPATH"] = ROOT
        env["BIG_SIZE"] = str(calibrate(tmp))
        env.pop("STEPUP_DIRECTOR_SOCKET", None)
        env.pop("STEPUP_ROOT", None)
        rc1 = build(tmp, env)
        db = sqlite3.connect(os.path.join(tmp, ".stepup", "graph.db"))
        sources = sorted(
            r[0]
            for r in db.execute(
                "SELECT src.label FROM dependency JOIN node AS src ON src.i = source "
                "JOIN node AS snk ON snk.i = sink WHERE snk.label = './work.py'"
            )
        )
        db.close()
        print(f"build 1: rc={rc1}, inputs of ./work.py in the graph: {sources}")
        if "cfg.txt" not in sources:
            print("The timing did not work out: ./work.py was not declared again in time.")
            return 0
        # Edit the amended input and build again.
        with open(os.path.join(tmp, "extra.txt"), "w") as fh:
            fh.write("v2\n")
        rc2 = build(tmp, env)
        with open(os.path.join(tmp, "big.bin"), "rb") as fh:
            content = fh.read(3)
        with open(os.path.join(tmp, "work.log")) as fh:
            nrun = fh.read().count("start")
        print(f"build 2: rc={rc2}, runs of ./work.py in total: {nrun}, big.bin starts with {content!r}")
        if rc1 == 0 and rc2 == 0 and content != b"v2\n":
            print(
                "DEFECT: extra.txt, which ./work.py amended as input and copied into big.bin, was "
                "edited,\nand a successful build left big.bin with the old content: the step lost "
                "its amended input\nwhen it was declared again, and was recorded SUCCEEDED anyway."
            )
            return 1
        print("No defect observed.")
        return 0
    finally:
        shutil.rmtree(tmp, ignore_errors=True)


if __name__ == "__main__":
    sys.exit(main())
