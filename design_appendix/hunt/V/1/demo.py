#!/usr/bin/env python3
"""A step that is declared again while its outputs are hashed (after its command has ended)
is recorded as SUCCEEDED for the new declaration, which never ran.

Run as: cd /tmp/hunt_V && PYTHONPATH=/tmp/hunt_V /venv/bin/python _found/1/demo.py

A real `stepup build -j 4` in a temporary directory, nothing is patched.
Exit code 1 when the defect shows, 0 when it does not.
"""

import os
import shutil
import sqlite3
import subprocess
import sys
import tempfile
import time

ROOT = "/tmp/hunt_V"
sys.path.insert(0, ROOT)

from stepup.core.hash import FileHash  # noqa: E402

PLAN = """\
#!/usr/bin/env python3
from stepup.core.api import static, step

static("gen.py", "p.py", "work.py")
step("./gen.py", inp="gen.py", out="cfg.txt")
step("./p.py", inp="p.py")
"""

# Produces cfg.txt after 3 seconds.
GEN = """\
#!/usr/bin/env python3
import time
time.sleep(3.0)
with open("cfg.txt", "w") as fh:
    fh.write("config\\n")
"""

# A planning step whose declaration of ./work.py depends on cfg.txt.
# First run: cfg.txt is not there yet, declares ./work.py without it, is deferred on cfg.txt.
# Second run (when cfg.txt is built): declares ./work.py with another input and another output.
P = """\
#!/usr/bin/env python3
import os
import time
from stepup.core.api import amend, step

if os.path.exists("cfg.txt"):
    step("./work.py", inp=["work.py", "cfg.txt"], out=["big.bin", "o2.txt"])
else:
    step("./work.py", inp=["work.py"], out=["big.bin"])
    time.sleep(1.0)
amend(inp="cfg.txt")
"""

# Writes a big (sparse) file, so that hashing the outputs after the command takes a while.
WORK = """\
#!/usr/bin/env python3
import os
import time
with open("work.log", "a") as fh:
    fh.write("start\\n")
time.sleep(1.5)
with open("big.bin", "wb") as fh:
    fh.truncate(int(os.environ["BIG_SIZE"]))
if os.path.exists("cfg.txt"):
    with open("o2.txt", "w") as fh:
        fh.write("second output\\n")
"""


def calibrate(tmp: str) -> int:
    """Return a file size whose hash takes about 8 seconds on this machine right now."""
    path = os.path.join(tmp, "calib.bin")
    size = 100_000_000
    with open(path, "wb") as fh:
        fh.truncate(size)
    start = time.perf_counter()
    FileHash.unknown().refreshed(path)
    elapsed = max(time.perf_counter() - start, 1e-3)
    os.remove(path)
    return int(min(max(size * 8.0 / elapsed, 300_000_000), 20_000_000_000))


def main() -> int:
    os.makedirs(os.path.join(ROOT, "_scratch"), exist_ok=True)
    tmp = tempfile.mkdtemp(prefix="found1_", dir=os.path.join(ROOT, "_scratch"))
    try:
        for name, text in [("plan.py", PLAN), ("gen.py", GEN), ("p.py", P), ("work.py", WORK)]:
            path = os.path.join(tmp, name)
            with open(path, "w") as fh:
                fh.write(text)
            os.chmod(path, 0o755)
        big_size = calibrate(tmp)
        env = dict(os.environ)
        env["PATH"] = "/venv/bin:" + env["PATH"]
        env["PYTHONPATH"] = ROOT
        env["BIG_SIZE"] = str(big_size)
        env.pop("STEPUP_DIRECTOR_SOCKET", None)
        env.pop("STEPUP_ROOT", None)
        print(f"big.bin will be {big_size} bytes (sparse)")
        proc = subprocess.run(
            ["stepup", "build", "-j", "4", "--no-progress"],
            cwd=tmp,
            env=env,
            capture_output=True,
            text=True,
            timeout=600,
            check=False,
        )
        print(proc.stdout)
        print(proc.stderr)
        with open(os.path.join(tmp, "work.log")) as fh:
            nrun = fh.read().count("start")
        db = sqlite3.connect(os.path.join(tmp, ".stepup", "graph.db"))
        step_state = db.execute(
            "SELECT state FROM step JOIN node ON node.i = step.node WHERE label = './work.py'"
        ).fetchone()[0]
        row = db.execute(
            "SELECT state, detached FROM file JOIN node ON node.i = file.node "
            "WHERE label = 'o2.txt'"
        ).fetchone()
        sources = sorted(
            r[0]
            for r in db.execute(
                "SELECT src.label FROM dependency JOIN node AS src ON src.i = source "
                "JOIN node AS snk ON snk.i = sink WHERE snk.label = './work.py'"
            )
        )
        db.close()
        o2_exists = os.path.exists(os.path.join(tmp, "o2.txt"))
        print(f"return code of stepup build       : {proc.returncode}")
        print(f"number of runs of ./work.py       : {nrun}")
        print(f"state of step ./work.py (23=SUCC.) : {step_state}")
        print(f"inputs of ./work.py in the graph  : {sources}")
        print(f"(state, detached) of file o2.txt  : {row}   (15 = PLANNED)")
        print(f"o2.txt exists on disk             : {o2_exists}")
        if "cfg.txt" not in sources:
            print("The timing did not work out: ./work.py was not declared again in time.")
            return 0
        if proc.returncode == 0 and step_state == 23 and not o2_exists:
            print(
                "DEFECT: the build succeeded, ./work.py is SUCCEEDED with output o2.txt and input "
                "cfg.txt,\nbut its command only ran for the declaration without them: "
                "o2.txt was never built."
            )
            return 1
        print("No defect observed.")
        return 0
    finally:
        shutil.rmtree(tmp, ignore_errors=True)


if __name__ == "__main__":
    sys.exit(main())
